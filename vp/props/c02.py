"""C02 - a component fires exactly when its requirements are met; arguments bind in order."""
import itertools
import re

from hypothesis import strategies as st

from vp import dyn
from vp.core import Sub, Reg, Violation, HarnessError

PROPERTY = "C02"
RULE = ("random acyclic component graphs (2-10 nodes; plain/component/combiner/condition/rule/datasource/"
        "parser/registry point; required, at-least-one and optional edges incl. groups sharing members "
        "and the same dependency declared twice) x outcome per node (value/skip/content error/failed "
        "command/timeout/crash) x seeded values x enabled/disabled configuration applied through "
        "dr.set_enabled, insights.apply_configs (exact and prefix names) or apply_default_enabled x "
        "five ways of handing the graph to the engine; the same cases through the public front ends "
        "(sub-check frontends: insights.run with a component / a component list / the default group, "
        "insights._run, insights.process_dir, SingleEvaluator.process serial and incremental, "
        "dr.run_incremental, dr.run_all with and without a pool) x graph shape (full, closure of targets, "
        "subset, the process-wide default graph) x root (none, plain / insights_commands / sos_commands / "
        "serialized-archive directory, tar.gz archive) x context argument x thread pool, with components "
        "switched off in more than half of the cases; plus an exhaustive enumeration of dependency "
        "shapes over <= 3 (quick) / 4 (thorough) upstream components. Oracle: reference evaluator "
        "written from the statement (fires iff enabled and requirements met; one positional argument "
        "per declared dependency in declaration order; exact missing report / rule skip response). "
        "Non-trivial: some observed component has a required, a group and an optional dependency (or "
        "two groups sharing a member) and at least one of its dependencies produced no value.")
ASSUMPTIONS = [
    "component bodies never return None and nothing depends on a rule (the statement does not say "
    "whether None or a rule's skip response counts as a value)",
    "registry points have exactly one implementation here (overriding is C05)",
    "front ends: the generated components do not depend on the execution context, so which context a "
    "directory is recognised as does not decide anything (context resolution is C05)",
]
EXCLUDED = [
    "insights._run(parallel=True) without a root (it evaluates the graph and then fails with TypeError in "
    "os.path.isdir(None) on the unchanged tree; the evaluation itself is the same dr.run_all call that the "
    "rooted form makes, which is generated)",
    "values supplied beforehand / a second pass on a broker that holds a SerializedArchiveContext: dr.run "
    "documents a further rule there (dependencies of what the broker holds are not collected again) which "
    "the statement does not cover (C01 `archive` models it)",
    "insights.run(print_summary=True): command-line parsing, config file reading and formatter output",
]


# ---- the public front ends ---------------------------------------------------------------------------
#
# The statement is about "a component", not about dr.run: whichever public entry point evaluates the graph,
# the same components fire with the same arguments and the same unmet requirements are reported.  The
# front ends narrow / rebuild the graph and prepare the broker themselves before they hand over to the
# engine (insights.run builds the graph from a component list or takes the default group; insights._run
# and insights.process_dir restrict it to the single group, determine the execution context from a
# directory / unpack an archive, optionally evaluate through a thread pool; SingleEvaluator wraps the
# evaluation in a formatter whose response lists the rule skips; dr.run_incremental / dr.run_all evaluate
# the connected parts one by one).  A case of the sub-check `frontends` is an ordinary C02 case (graph x
# outcomes x seeds x enabled/disabled configuration x earlier evaluation x repetition x second pass)
# whose driver is {"kind": "front", "api", "graph", "root", "context", "parallel", ...}.

FRONT_APIS = ["insights.run", "insights._run", "insights.process_dir", "SingleEvaluator"]
FRONT_GRAPHS = ["full", "targets", "single_target", "subset", "default"]
FRONT_ROOTS = ["none", "plain", "commands", "sos", "serialized", "tar"]
FRONT_CONTEXTS = [None, "HostArchiveContext", "ExecutionContext"]
ENGINE_DRIVERS = ["run_incremental", "run_all", "run_all_pool"]
TMP_PREFIX = "vp-c02-"


@st.composite
def front_driver(draw, n):
    api = draw(st.sampled_from(["insights.run", "insights.run", "insights._run", "insights._run",
                                "insights.process_dir", "insights.process_dir", "SingleEvaluator", "dr"]))
    if api == "dr":
        # the engine's own further entry points (not among the drivers of `graphs`)
        return draw(dyn.driver(n, kinds=ENGINE_DRIVERS))
    d = {"kind": "front", "api": api, "root": "none", "context": None, "parallel": False}
    if api == "insights.run":
        shape = draw(st.sampled_from(["targets", "targets", "single_target", "default"]))
    elif api == "SingleEvaluator":
        shape = draw(st.sampled_from(["full", "targets", "subset", "default"]))
        d["incremental"] = draw(st.booleans())
        d["parallel"] = d["incremental"] and draw(st.booleans())
    else:
        shape = draw(st.sampled_from(["full", "targets", "targets", "subset", "default"]))
    d["graph"] = shape
    if shape in ("targets", "single_target"):
        k = 1 if shape == "single_target" else draw(st.integers(1, min(3, n)))
        d["targets"] = sorted(draw(st.sets(st.integers(0, n - 1), min_size=k, max_size=k)))
    if shape == "subset":
        d["subset"] = sorted(draw(st.sets(st.integers(0, n - 1), min_size=1, max_size=n)))
    if api != "SingleEvaluator":
        if api == "insights.process_dir":
            roots = ["plain", "plain", "commands", "sos", "serialized"]      # takes a directory only
        else:
            roots = FRONT_ROOTS + ["none", "plain"]
        d["root"] = draw(st.sampled_from(roots))
        d["context"] = draw(st.sampled_from([None, None, None, "HostArchiveContext", "ExecutionContext"]))
        if api != "insights.run" and d["root"] != "none":
            # (insights._run(parallel=True) without a root is outside the domain, see EXCLUDED)
            d["parallel"] = draw(st.sampled_from([False, False, True]))
    return d


@st.composite
def cases(draw, tier="quick", front=False):
    case = draw(dyn.graphs(max_nodes=12 if tier == "quick" else 14))
    n = len(case["nodes"])
    if front:
        drv = case["driver"] = draw(front_driver(n))
        if drv["kind"] == "front" and (drv["api"] == "insights.run" or drv["root"] == "serialized"):
            # insights.run creates the broker itself (nothing can be supplied beforehand); on a serialized
            # archive dr.run documents a further rule for what the broker already holds (the dependencies
            # of such components are not collected again), which the statement does not cover
            case["seeded"], case["seed_vals"] = [], {}
        # every front end is exercised with switched off components more often than not
        if not case["disabled"] and draw(st.booleans()):
            case["disabled"] = sorted(draw(st.sets(st.integers(0, n - 1), min_size=1, max_size=3)))
    else:
        case["driver"] = draw(dyn.driver(n))
    mode = draw(st.sampled_from(["set_enabled", "set_enabled", "apply_configs", "apply_configs_prefix",
                                 "default_disabled"]))
    case["enable_mode"] = mode
    if mode == "default_disabled":
        case["enabled_only"] = sorted(draw(st.sets(st.integers(0, n - 1), min_size=max(1, n - 3), max_size=n)))
    if mode == "apply_configs_prefix":
        case["prefix_cut"] = draw(st.integers(1, 3))
    case["pre_eval"] = draw(st.sampled_from([False, False, True]))
    case["repeat"] = draw(st.sampled_from([1, 1, 1, 2]))
    if draw(st.sampled_from([False, False, True])):
        case["rerun"] = draw(st.lists(st.integers(0, 13), max_size=4))
    return case


def apply_enable(case, b):
    """Applies the enabled/disabled configuration the way the case says; returns the effective set of
    disabled node indices computed by the documented rule (name prefix match)."""
    import insights
    from insights.core import dr
    comps = b.comps
    names = [dr.get_name(c) for c in comps]
    mode = case.get("enable_mode", "set_enabled")

    def matched(cfg_name):
        # documented rule: "name is the prefix or exact name of any loaded component"; an exact name
        # addresses that component only, anything else every component whose name starts with it
        exact = [i for i, n in enumerate(names) if n == cfg_name]
        return set(exact) if exact else set(i for i, n in enumerate(names) if n.startswith(cfg_name))
    if mode == "set_enabled":
        return set(case["disabled"])     # dyn.execute applies dr.set_enabled
    if mode in ("apply_configs", "apply_configs_prefix"):
        cfgs = []
        for i in case["disabled"]:
            name = names[i]
            if mode == "apply_configs_prefix":
                # a prefix of the name that still contains the unique case id
                cut = case.get("prefix_cut", 1)
                stem = name[:max(len(name) - cut, name.rfind("_") + 1)] if "_" in name else name
                name = stem
            cfgs.append({"name": name, "enabled": False})
        insights.apply_configs({"configs": cfgs})
        eff = set()
        for c in cfgs:
            eff |= matched(c["name"])
        return eff
    if mode == "default_disabled":
        insights.apply_default_enabled({"default_component_enabled": False})
        cfgs = [{"name": names[i], "enabled": True} for i in case["enabled_only"]]
        insights.apply_configs({"default_component_enabled": False, "configs": cfgs})
        on = set()
        for c in cfgs:
            on |= matched(c["name"])
        return set(range(len(names))) - on
    raise AssertionError(mode)


def _sweep_stale_tmp():
    """Workers are killed when another worker has found a violation or the budget is over; a case they were
    in the middle of cannot clean up after itself.  Directories of dead processes are removed at the next start."""
    import os
    import shutil
    import tempfile
    top = tempfile.gettempdir()
    for fn in os.listdir(top):
        if not fn.startswith(TMP_PREFIX):
            continue
        pid = fn[len(TMP_PREFIX):].split("-")[0]
        if not pid.isdigit():
            continue
        try:
            os.kill(int(pid), 0)
        except ProcessLookupError:
            shutil.rmtree(os.path.join(top, fn), ignore_errors=True)
        except OSError:
            pass


def selftest():
    _sweep_stale_tmp()


def _validate_front(case, drv):
    ok = (drv.get("api") in FRONT_APIS and drv.get("graph") in FRONT_GRAPHS and drv.get("root") in FRONT_ROOTS
          and drv.get("context") in FRONT_CONTEXTS)
    if ok and drv["api"] == "insights.run":
        ok = drv["graph"] in ("targets", "single_target", "default") and not drv.get("parallel") and not case["seeded"]
    if ok and drv["api"] == "insights.process_dir":
        ok = drv["root"] not in ("none", "tar")
    if ok and drv["api"] == "SingleEvaluator":
        ok = drv["root"] == "none" and drv["context"] is None
    if ok and drv["root"] == "serialized":
        ok = not case["seeded"]
    if ok and drv["root"] == "none" and drv["api"] != "SingleEvaluator":
        ok = not drv.get("parallel")
    if not ok:
        raise HarnessError("bad case: front-end driver %r (seeded %r)" % (drv, case["seeded"]))


def front_active(case, drv):
    shape = drv["graph"]
    if shape in ("targets", "single_target"):
        return dyn.closure(case, drv["targets"])
    if shape == "subset":
        return set(drv["subset"])
    return set(range(len(case["nodes"])))


def _make_root(kind, tmp, k):
    """A directory (or archive) the front end determines the execution context from."""
    import os
    import tarfile
    top = os.path.join(tmp, "root%d" % k)

    def put(*parts):
        path = os.path.join(top, *parts)
        if not os.path.isdir(os.path.dirname(path)):
            os.makedirs(os.path.dirname(path))
        with open(path, "w") as f:
            f.write("vp.example.com\n")
    if kind == "serialized":
        put("insights_archive.txt")
        return top
    put("etc", "hostname")
    put("etc", "redhat-release")
    if kind == "commands":
        put("insights_commands", "hostname")
    if kind == "sos":
        put("sos_commands", "general", "hostname")
    if kind == "tar":
        arc = os.path.join(tmp, "root%d.tar.gz" % k)
        with tarfile.open(arc, "w:gz") as t:
            t.add(top, arcname="vp-archive")
        return arc
    return top


def front_execute(case, b, drv, tmp, graphs):
    """One evaluation through a public front end -> (broker, escaped exception or None, evaluator response or None).
    Seeds, the skip-recording switch and dr.set_enabled are applied as dyn.execute applies them."""
    import io
    import insights
    from insights.core import dr, context as ctxmod
    comps, nodes = b.comps, case["nodes"]
    api, shape = drv["api"], drv["graph"]
    for i in case["disabled"]:
        dr.set_enabled(comps[i], False)

    def build_graph():
        if shape == "full":
            return dict((c, set(comps[j] for j in dyn.dep_set(nodes[i]))) for i, c in enumerate(comps))
        if shape in ("targets", "single_target"):
            g = {}
            for i in drv["targets"]:
                g.update(dr.get_dependency_graph(comps[i]))
            return g
        if shape == "subset":
            return dict((comps[i], set(comps[j] for j in dyn.dep_set(nodes[i]))) for i in drv["subset"])
        return dr.COMPONENTS[dr.GROUPS.single]         # "default": the process-wide graph of the single group

    def graph():
        # a caller that keeps handing over its own graph object (repeat > 1)
        if "front" not in graphs:
            graphs["front"] = build_graph()
        return graphs["front"]
    graphs["n"] = graphs.get("n", 0) + 1
    root = None if drv["root"] == "none" else _make_root(drv["root"], tmp, graphs["n"])
    context = getattr(ctxmod, drv["context"]) if drv.get("context") else None
    broker = None
    response = None
    escaped = None
    try:
        if api == "insights.run":
            if shape == "default":
                component = None
            elif shape == "single_target":
                component = comps[drv["targets"][0]]
            else:
                component = [comps[i] for i in drv["targets"]]
            broker = insights.run(component, root=root, context=context, store_skips=case["store_skips"])
        else:
            broker = dr.Broker()
            broker.store_skips = case["store_skips"]
            for i in case["seeded"]:
                broker[comps[i]] = dyn.seed_value(case, i)
            par = bool(drv.get("parallel"))
            if api == "insights._run":
                insights._run(broker, graph(), root=root, context=context, parallel=par)
            elif api == "insights.process_dir":
                insights.process_dir(broker, root, graph(), context, parallel=par)
            else:
                from insights.core.evaluators import SingleEvaluator
                ev = SingleEvaluator(broker, stream=io.StringIO(), incremental=bool(drv.get("incremental")))
                response = ev.process(None if shape == "default" else graph(), parallel=par)
    except Exception as e:  # noqa
        escaped = e
    return broker, escaped, response


def check(case):
    import logging
    import os
    import shutil
    import tempfile
    from insights.core import dr
    drv = case["driver"]
    front = drv["kind"] == "front"
    saved_enabled = dr.ENABLED
    saved_items = dict(saved_enabled)
    group = dr.COMPONENTS[dr.GROUPS.single]
    saved_group = None
    prev_disable = logging.root.manager.disable
    tmp = None
    b = None
    try:
        if front:
            _validate_front(case, drv)
            from insights.core import evaluators  # noqa  (registers components: before the group is emptied)
            logging.disable(logging.CRITICAL)
            if drv["root"] != "none":
                tmp = tempfile.mkdtemp(prefix="%s%d-" % (TMP_PREFIX, os.getpid()))
            if drv["graph"] == "default":
                # "everything that is loaded": the single group holds the generated components only while the
                # case runs (its previous content is put back afterwards, same objects)
                saved_group = list(group.items())
                group.clear()
        b = dyn.build(case)
        if case.get("pre_eval"):
            # a long-lived process: the components were already evaluated once under the default
            # settings before the enabled/disabled configuration is applied
            dyn.execute(dict(case, disabled=[], seeded=[]), b, {"kind": "run_full"})
            b.log[:] = []
            b.raised.clear()
        eff_disabled = apply_enable(case, b)
        run_case = dict(case)
        if case.get("enable_mode", "set_enabled") != "set_enabled":
            run_case["disabled"] = []          # already applied through the configuration API
        model_case = dict(case, disabled=sorted(eff_disabled))
        active = front_active(case, drv) if front else dyn.active_set(case, drv)
        ex = dyn.model(model_case, active)
        graphs = {}
        info = None
        for _rep in range(int(case.get("repeat", 1))):
            # the same graph object evaluated again with a fresh broker must decide the same way
            b.log[:] = []
            b.raised.clear()
            response = None
            if front:
                broker, escaped, response = front_execute(run_case, b, drv, tmp, graphs)
            else:
                broker, escaped = dyn.execute(run_case, b, drv, graphs=graphs)
            if escaped is not None:
                raise Violation("evaluation raised %s: %s" % (type(escaped).__name__, escaped))
            if broker is None:
                raise Violation("%s returned no broker" % drv.get("api"))
            try:
                info = compare(case, model_case, b, broker, ex, active)
                if response is not None:
                    _compare_response(case, b, ex, response)
            except Violation as v:
                if not front:
                    raise
                raise Violation("%s: %s" % (_front_name(drv), v.msg), **v.details)
            if front:
                info["labels"] = sorted(set(info["labels"]) | set(_front_labels(case, model_case, drv, ex, active)))
        if case.get("rerun") is not None:
            from insights.core.context import SerializedArchiveContext
            if broker.get(SerializedArchiveContext) is None:
                # (under the serialized-archive context dr.run documents a further rule for what the broker
                # already holds, which the statement does not cover)
                info = dict(info)
                info["labels"] = sorted(set(info["labels"]) | set(_rerun(case, model_case, b, broker, ex, case["rerun"])))
        return info
    finally:
        try:
            if b is not None:
                dyn.cleanup(b)
            dr.ENABLED = saved_enabled
            for k in list(saved_enabled.keys()):
                if k not in saved_items:
                    del saved_enabled[k]
            saved_enabled.update(saved_items)
        finally:
            if saved_group is not None:
                # (components that something registered meanwhile - there should be none - are kept)
                extra = list(group.items())
                group.clear()
                group.update(saved_group)
                group.update(extra)
            logging.disable(prev_disable)
            if tmp is not None:
                shutil.rmtree(tmp, ignore_errors=True)


def _front_name(drv):
    return "%s(graph=%s, root=%s%s%s)" % (drv["api"], drv["graph"], drv["root"],
                                         ", context=%s" % drv["context"] if drv.get("context") else "",
                                         ", parallel" if drv.get("parallel") else "")


def _compare_response(case, b, ex, response):
    """The evaluator's response lists the rule skips: exactly the rules with unmet requirements, each once."""
    from insights.core import dr
    nodes = case["nodes"]
    names = dict((dr.get_name(c), i) for i, c in enumerate(b.comps))
    got = sorted((names.get(r.get("rule_fqdn"), repr(r.get("rule_fqdn"))) for r in response.get("skips", [])), key=repr)
    want = sorted((i for i, nd in enumerate(nodes) if nd["t"] == "rule" and isinstance(ex.val.get(i), tuple) and
                   ex.val[i] and ex.val[i][0] == "SKIPRESP"), key=repr)
    if got != want:
        raise Violation("the evaluator's response lists skip results for rules %r, the rules with unmet "
                        "requirements are %r" % (got, want))


def _front_labels(case, model_case, drv, ex, active):
    labels = ["api=" + drv["api"], "graph=" + drv["graph"], "root=" + drv["root"],
              "context=" + str(drv.get("context"))]
    if drv.get("parallel"):
        labels.append("pool")
    off = set(model_case["disabled"]) - set(case["seeded"])
    # a component that is tried and found wanting *because* something was switched off
    for i, nd in enumerate(case["nodes"]):
        rep = ex.missing.get(i)
        v = ex.val.get(i)
        if rep is None and nd["t"] == "rule" and isinstance(v, tuple) and v and v[0] == "SKIPRESP":
            rep = (v[1], v[2])
        if rep is None:
            continue
        named = set(rep[0]) | set(j for g in rep[1] for j in g)
        if named & off:
            labels.append("report-names-disabled-dependency")
        if any(j in ex.missing for j in named):
            labels.append("report-names-unsatisfied-dependency")
    if off & active:
        labels.append("disabled-in-graph")
    return labels


def _rerun(case, model_case, b, broker, ex1, reseed):
    """The same broker is evaluated again (an interactive session, a caller that supplies further inputs after a
    first pass): whatever holds a value keeps it, everything else is decided afresh by the same rule - a component
    whose requirements are met *now* is invoked with the values present *now*."""
    from insights.core import dr
    nodes, comps = case["nodes"], b.comps
    n = len(nodes)
    start = dict(ex1.val)             # what the broker holds after the first pass (established by compare())
    added = []
    for r in reseed:
        i = r % n
        if i not in start and comps[i] not in broker:
            v = dyn.seed_value(case, i)
            broker[comps[i]] = v
            start[i] = v
            added.append(i)
    b.log[:] = []
    b.raised.clear()
    graph = dict((c, set(comps[j] for j in dyn.dep_set(nodes[i]))) for i, c in enumerate(comps))
    try:
        dr.run(graph, broker=broker)
    except Exception as e:  # noqa
        raise Violation("second evaluation on the same broker raised %s: %s" % (type(e).__name__, e))
    orig = dyn.seed_value
    dyn.seed_value = lambda c, i: start[i]
    try:
        ex2 = dyn.model(dict(model_case, seeded=sorted(start)), None)
    finally:
        dyn.seed_value = orig
    calls = {}
    for ev in b.log:
        if ev[0] == "call":
            calls.setdefault(ev[1], []).append((ev[2], ev[3]))
    for i in range(n):
        want = ex2.invoked.get(i)
        got = calls.get(i)
        if (want is None) != (got is None):
            raise Violation("second evaluation on the same broker (values supplied in between for nodes %r): node %d (%s) "
                            "was %sinvoked but should %shave been" % (added, i, nodes[i]["t"], "" if got else "not ",
                                                                      "not " if got else ""),
                            node=i, got_calls=dyn.to_json(got), want_calls=dyn.to_json(want), held_before=sorted(start))
        if want is not None and got != want:
            raise Violation("second evaluation on the same broker: node %d (%s) received arguments %r, the values "
                            "present prescribe %r" % (i, nodes[i]["t"], got, want), node=i)
    have = set(b.index[c] for c in broker.instances if c in b.index)
    if have != set(ex2.val):
        raise Violation("after the second evaluation on the same broker the components holding a value are %r, "
                        "expected %r" % (sorted(have), sorted(ex2.val)), supplied_in_between=added)
    labels = ["rerun-same-broker"]
    if added:
        labels.append("rerun:values-supplied-in-between")
    if any(i not in ex1.invoked and i in ex2.invoked for i in range(n)):
        labels.append("rerun:fires-only-now")
    return labels


def compare(case, model_case, b, broker, ex, active):
    from insights.core import dr
    nodes = case["nodes"]
    comps = b.comps
    calls = {}
    for ev in b.log:
        if ev[0] == "call":
            calls.setdefault(ev[1], []).append((ev[2], ev[3]))
    # invoked <=> model says so
    for i in range(len(nodes)):
        want = ex.invoked.get(i)
        got = calls.get(i)
        if (want is None) != (got is None):
            why = []
            if i in model_case["disabled"]:
                why.append("disabled")
            if i in case["seeded"]:
                why.append("seeded")
            if i in ex.missing or (isinstance(ex.val.get(i), tuple) and ex.val[i] and ex.val[i][0] == "SKIPRESP"):
                why.append("requirements not met")
            if i not in active:
                why.append("not part of the evaluated graph")
            raise Violation("node %d (%s) was %sinvoked but should %shave been (%s)" % (
                i, nodes[i]["t"], "" if got else "not ", "not " if got else "", ", ".join(why) or "requirements met"),
                node=i, got_calls=dyn.to_json(got), want_calls=dyn.to_json(want))
        if want is not None and got != want:
            raise Violation("node %d (%s) received arguments %r, declaration order prescribes %r" % (
                i, nodes[i]["t"], got, want), node=i, got=dyn.to_json(got), want=dyn.to_json(want))
    # missing-requirement reports, exactly
    got_missing = {}
    for c, m in broker.missing_requirements.items():
        i = b.index.get(c)
        if i is None:
            raise Violation("missing requirements reported for a component outside the graph: %r" % (c,))
        got_missing[i] = ([b.index.get(x, repr(x)) for x in m[0]], [[b.index.get(x, repr(x)) for x in g] for g in m[1]])
    want_missing = dict((i, (list(m[0]), [list(g) for g in m[1]])) for i, m in ex.missing.items())
    # a disabled component is simply not invoked; if the engine nevertheless reports its missing
    # dependencies the report must be the exact one (the statement does not forbid it)
    for i in model_case["disabled"]:
        if i in got_missing and i not in want_missing:
            nd = nodes[i]
            mreq = [d[1] for d in nd["decl"] if d[0] == "req" and d[1] not in ex.val]
            mgrp = [list(d[1]) for d in nd["decl"] if d[0] == "grp" and not any(j in ex.val for j in d[1])]
            if got_missing[i] == (mreq, mgrp) and (mreq or mgrp):
                del got_missing[i]
    def _canon(m):
        # the statement fixes *which* dependencies and groups are reported, not their order/multiplicity
        return (sorted(set(m[0]), key=repr), sorted(set(tuple(sorted(set(g), key=repr)) for g in m[1]), key=repr))
    if dict((k, _canon(v)) for k, v in got_missing.items()) != dict((k, _canon(v)) for k, v in want_missing.items()):
        raise Violation("missing-dependency reports differ: got %r, expected %r" % (got_missing, want_missing),
                        got=got_missing, want=want_missing)
    # rules with unmet requirements: skip response naming exactly the missing components
    for i, nd in enumerate(nodes):
        v = ex.val.get(i)
        if nd["t"] == "rule" and isinstance(v, tuple) and v and v[0] == "SKIPRESP":
            if comps[i] not in broker:
                raise Violation("rule %d with unmet requirements has no skip response" % i, node=i)
            r = broker[comps[i]]
            got = dyn.norm_value(b, r)
            want = ("SKIPRESP", list(v[1]), [list(g) for g in v[2]])
            if got[0] != "SKIPRESP" or _canon(got[1:]) != _canon(want[1:]):
                raise Violation("rule %d skip response reports %r, expected %r" % (i, got, want), node=i)
            named = set()
            details = r.get("details", "")
            for j, c in enumerate(comps):
                if re.search(r"(?<![\w.])%s(?!\w)" % re.escape(dr.get_name(c)), details):
                    named.add(j)
            expect_named = set(v[1]) | set(itertools.chain.from_iterable(v[2]))
            if named != expect_named:
                raise Violation("rule %d skip details name %r, expected exactly %r" % (
                    i, sorted(named), sorted(expect_named)), node=i, details=details)
            if r.get("rule_fqdn") != dr.get_name(comps[i]):
                raise Violation("rule %d skip response carries rule_fqdn %r" % (i, r.get("rule_fqdn")))
    # disabled => not invoked (checked above) and no value
    for i in model_case["disabled"]:
        if i in case["seeded"]:
            continue
        if comps[i] in broker:
            raise Violation("disabled node %d has a value" % i, node=i)
    # a value exists exactly where the model has one (firing decides presence)
    have = set(b.index[c] for c in broker.instances if c in b.index)
    if have != set(ex.val):
        raise Violation("components holding a value: %r, expected %r" % (sorted(have), sorted(ex.val)))

    labels = ["driver=" + case["driver"]["kind"], "enable=" + case.get("enable_mode", "set_enabled")]
    nontrivial = False
    for i, nd in enumerate(nodes):
        kinds = [d[0] for d in nd["decl"]]
        groups = [d[1] for d in nd["decl"] if d[0] == "grp"]
        shared = any(set(g1) & set(g2) for g1, g2 in itertools.combinations(groups, 2))
        rich = ("req" in kinds and "grp" in kinds and "opt" in kinds) or shared
        absent = any(j not in ex.val for j in dyn.dep_set(nd))
        if shared:
            labels.append("groups-share-member")
        if rich and absent and (i in active) and i not in case["seeded"]:
            nontrivial = True
        if i in ex.missing:
            labels.append("missing-report")
        if nd["t"] == "rule" and isinstance(ex.val.get(i), tuple) and ex.val[i][0] == "SKIPRESP":
            labels.append("rule-skip-response")
    if nontrivial:
        labels.append("nontrivial")
    return {"nontrivial": nontrivial, "labels": sorted(set(labels))}


# ---- exhaustive dependency shapes ---------------------------------------------------------------

def shapes(tier):
    umax = 3 if tier == "quick" else 4
    seqmax = 3
    for ttype in ("component", "rule", "plain", "combiner"):
        for u in range(1, umax + 1):
            entries = [["req", j] for j in range(u)] + [["opt", j] for j in range(u)]
            for r in range(1, u + 1):
                for comb in itertools.combinations(range(u), r):
                    entries.append(["grp", list(comb)])
                    if r == 2:
                        entries.append(["grp", list(reversed(comb))])
            seen = set()
            top = seqmax
            for L in range(1, top + 1):
                for seq in itertools.product(entries, repeat=L):
                    decl = [d for d in seq if d[0] != "opt"] + [d for d in seq if d[0] == "opt"]
                    key = repr(decl)
                    if key in seen:
                        continue
                    seen.add(key)
                    if ttype in ("plain", "combiner") and (L > 2 or u > 2):
                        continue
                    # each upstream component: produced a (truthy) value / produced a falsy value / absent
                    states = ["value", "falsy", "absent"] if (u <= 2 or L <= 2) else ["value", "absent"]
                    for present in itertools.product(states, repeat=u):
                        nodes = [{"t": "component", "decl": [], "fault": "skip" if p == "absent" else "ok", "multi": 0,
                                  "efaults": ["ok"], "coe": True, "val": "false" if p == "falsy" else "t"} for p in present]
                        nodes.append({"t": ttype, "decl": [list(d) if d[0] != "grp" else ["grp", list(d[1])] for d in decl],
                                      "fault": "ok", "multi": 0, "efaults": ["ok"], "coe": True})
                        yield {"nodes": nodes, "seeded": [], "disabled": [], "store_skips": False,
                               "driver": {"kind": "run_full"}, "enable_mode": "set_enabled"}


def strat(tier):
    return cases(tier)


def strat_front(tier):
    return cases(tier, front=True)


SUBS = [
    Sub("graphs", check, strategy=strat, quick=2000, thorough=15000, workers_quick=4),
    Sub("frontends", check, strategy=strat_front, quick=550, thorough=6000, workers_quick=4, budget_quick=40),
    Sub("shapes", check, enumerate=shapes, workers_quick=4, workers_thorough=16, budget_quick=100,
        budget_thorough=1500),
]

_N = {"multi": 0, "efaults": ["ok"], "coe": True}
REGRESSIONS = [
    Reg("shared-group-member", "graphs", {
        "nodes": [dict(_N, t="component", decl=[], fault="ok"), dict(_N, t="component", decl=[], fault="skip"),
                  dict(_N, t="component", decl=[], fault="ok"),
                  dict(_N, t="rule", decl=[["req", 0], ["grp", [1, 2]], ["grp", [1]], ["opt", 1], ["opt", 0]], fault="ok")],
        "seeded": [], "disabled": [], "store_skips": False, "driver": {"kind": "run_full"}, "enable_mode": "set_enabled"}),
    Reg("prefix-disable", "graphs", {
        "nodes": [dict(_N, t="component", decl=[], fault="ok")] * 2 + [dict(_N, t="combiner", decl=[["req", 1], ["opt", 0]], fault="ok")],
        "seeded": [], "disabled": [1], "store_skips": False, "driver": {"kind": "run_targets", "targets": [2]},
        "enable_mode": "apply_configs"}),
]
