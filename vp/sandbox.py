"""File-system sandboxes, a recording execution context and an open()/Popen audit trace
(DESIGN.md 2.3) - shared by C06, C07, C11, C17.

    with Sandbox(entries) as sb:            # temp tree from a JSON description, removed on exit
        sb.path("w/R/etc/a.conf")
        before = fs_snapshot(sb.base)
        ...
        diff = fs_diff(before, fs_snapshot(sb.base))     # {"created": [...], "changed": [...], "removed": [...]}

    ctx = RecordingHostContext(root, real_prefixes=[sb.base])   # logs every argv it is asked to run
    ctx.argvs()                                                  # -> [[argv, ...] per pipeline]

    with audit_trace(needles=[sb.base]) as events:    # process-wide audit hook, only active inside
        ...                                            # events: [{"event": "open", "path": ..}, ...]

    with GlobalState():                     # snapshot / in-place restore of dr.*, blacklist.*, filters.*
        ...

Nothing here imports insights.tests.  The audit hook is installed once per process (audit hooks can
not be removed); it does nothing unless a trace is active.
"""
from __future__ import print_function

import hashlib
import os
import shlex
import shutil
import signal
import stat
import sys
import tempfile
from contextlib import contextmanager

from insights.core.context import HostContext

from vp.core import HarnessError


# ---------------------------------------------------------------------------------------------
# directory trees
# ---------------------------------------------------------------------------------------------

def build_tree(base, entries):
    """Create the entries below `base`, in list order.

    entry forms (all paths relative to base, '/' separated, never starting with '/'):
      {"t": "d", "p": "w/R/etc"}                          directory (parents are created)
      {"t": "f", "p": "w/R/etc/a", "c": "text"}           text file (utf-8), optional "mode": 0o755
      {"t": "l", "p": "w/R/lnk", "to": "../R2/secret"}    symlink with the literal (relative) target
      {"t": "l", "p": "w/R/lnk", "abs": "w/R2/secret"}    symlink to the absolute path base/<abs>
      {"t": "l", "p": "w/R/lnk", "raw": "/etc/hostname"}  symlink to a literal absolute target
    A path that already exists (or whose parent is not a directory) is skipped silently so that a
    generated description never fails to build; returns the list of entries actually created."""
    made = []
    for e in entries:
        rel = e["p"]
        if rel.startswith("/") or ".." in rel.split("/"):
            raise HarnessError("sandbox entry path must stay relative to the base: %r" % (rel,))
        full = os.path.join(base, rel)
        parent = os.path.dirname(full)
        try:
            if not os.path.isdir(parent):
                os.makedirs(parent)
            if os.path.lexists(full):
                if e["t"] == "d" and os.path.isdir(full) and not os.path.islink(full):
                    made.append(e)
                continue
            if e["t"] == "d":
                os.mkdir(full)
            elif e["t"] == "f":
                with open(full, "wb") as f:
                    f.write(e.get("c", "").encode("utf-8", "surrogateescape"))
                if "mode" in e:
                    os.chmod(full, e["mode"])
            elif e["t"] == "l":
                if "abs" in e:
                    target = os.path.join(base, e["abs"])
                elif "raw" in e:
                    target = e["raw"]
                else:
                    target = e["to"]
                os.symlink(target, full)
            else:
                raise HarnessError("unknown sandbox entry type %r" % (e["t"],))
            made.append(e)
        except OSError:
            # e.g. the parent is a symlink to a file / a dangling link: not creatable, skip
            continue
    return made


class Sandbox(object):
    """A fresh temp directory (real path, no symlink component) that is removed on close()."""

    def __init__(self, entries=None, prefix="vp-sbx-"):
        self.base = os.path.realpath(tempfile.mkdtemp(prefix=prefix))
        self.made = []
        if entries:
            self.build(entries)

    def build(self, entries):
        made = build_tree(self.base, entries)
        self.made.extend(made)
        return made

    def path(self, rel=""):
        return os.path.join(self.base, rel) if rel else self.base

    def close(self):
        base, self.base = self.base, None
        if base and os.path.isdir(base):
            # directories may have lost their permission bits in a case
            for r, ds, _ in os.walk(base):
                for d in ds:
                    p = os.path.join(r, d)
                    if not os.path.islink(p):
                        try:
                            os.chmod(p, 0o700)
                        except OSError:
                            pass
            shutil.rmtree(base, ignore_errors=True)

    def __enter__(self):
        return self

    def __exit__(self, *exc):
        self.close()
        return False


def fs_snapshot(top):
    """{relative path: ("d",) | ("l", target) | ("f", size, sha1)} of everything below top
    (symlinks are not followed)."""
    snap = {}
    for r, ds, fs in os.walk(top, followlinks=False):
        for name in sorted(ds) + sorted(fs):
            full = os.path.join(r, name)
            rel = os.path.relpath(full, top)
            try:
                st = os.lstat(full)
            except OSError:
                continue
            if stat.S_ISLNK(st.st_mode):
                snap[rel] = ("l", os.readlink(full))
            elif stat.S_ISDIR(st.st_mode):
                snap[rel] = ("d",)
            else:
                h = hashlib.sha1()
                try:
                    with open(full, "rb") as f:
                        h.update(f.read())
                    snap[rel] = ("f", st.st_size, h.hexdigest())
                except (IOError, OSError):
                    snap[rel] = ("f", st.st_size, None)
    return snap


def fs_diff(before, after):
    created = sorted(k for k in after if k not in before)
    removed = sorted(k for k in before if k not in after)
    changed = sorted(k for k in after if k in before and before[k] != after[k])
    return {"created": created, "removed": removed, "changed": changed}


def is_within(path, top):
    """component-wise containment of two absolute, normalised paths (top itself counts)"""
    p = [c for c in path.split(os.sep) if c]
    t = [c for c in top.split(os.sep) if c]
    return p[:len(t)] == t


# ---------------------------------------------------------------------------------------------
# recording execution context
# ---------------------------------------------------------------------------------------------

def normalise_cmd(cmd):
    """what insights.util.subproc.call / streams.connect make of their command argument:
    a list of argv lists (one per pipeline stage)"""
    if not isinstance(cmd, (list, tuple)):
        cmd = [cmd]
    out = []
    for c in cmd:
        out.append([str(a) for a in c] if isinstance(c, (list, tuple)) else shlex.split(c))
    return out


HARMLESS = ("cat", "grep")


class RecordingHostContext(HostContext):
    """HostContext that logs every command it is asked to run.

    calls: list of {"via": "shell_out" | "check_output" | "connect", "cmds": [[argv], ...], "real": bool}
    A pipeline is really executed only if every stage is `cat`/`grep` and every absolute-path
    argument of every stage lies below one of `real_prefixes`; everything else is answered by
    `responder(cmds)` (a str; default: one line naming the command), optionally passed through an
    emulation of trailing `grep -F <patterns>` stages."""

    def __init__(self, root="/", timeout=30, all_files=None, responder=None, real_prefixes=(),
                 emulate_grep=True):
        super(RecordingHostContext, self).__init__(root=root, timeout=timeout, all_files=all_files)
        self.calls = []
        self.responder = responder
        self.real_prefixes = [os.path.realpath(p) for p in real_prefixes]
        self.emulate_grep = emulate_grep

    # -- inspection ------------------------------------------------------------------------
    def argvs(self):
        """every argv (pipeline stage) this context was asked to run, duplicates removed, in order"""
        seen, out = set(), []
        for c in self.calls:
            for argv in c["cmds"]:
                k = tuple(argv)
                if k not in seen:
                    seen.add(k)
                    out.append(list(argv))
        return out

    # -- policy ----------------------------------------------------------------------------
    def _is_real(self, cmds):
        if not self.real_prefixes or not cmds:
            return False
        for argv in cmds:
            if not argv or os.path.basename(argv[0]) not in HARMLESS:
                return False
            if "/" in argv[0] and argv[0] not in ("/bin/cat", "/bin/grep", "/usr/bin/cat", "/usr/bin/grep"):
                return False
            for a in argv[1:]:
                if a.startswith("/"):
                    ra = os.path.realpath(a)
                    if not any(is_within(ra, p) for p in self.real_prefixes):
                        return False
        # a cat/grep without any file argument would read stdin (DEVNULL): harmless as well
        return True

    def _generated(self, cmds):
        out = self.responder(cmds) if self.responder else None
        if out is None:
            out = "output of %s\n" % " ".join(cmds[0])
        if self.emulate_grep:
            for argv in cmds[1:]:
                if os.path.basename(argv[0]) == "grep" and argv[1:2] == ["-F"] and (
                        len(argv) == 3 or (len(argv) == 4 and argv[2] == "-e")):
                    pats = argv[-1].split("\n")
                    out = "".join(l for l in out.splitlines(True) if any(p in l for p in pats))
        return out

    # -- overridden entry points ---------------------------------------------------------------
    def check_output(self, cmd, timeout=None, keep_rc=False, env=None, signum=None):
        cmds = normalise_cmd(cmd)
        real = self._is_real(cmds)
        self.calls.append({"via": "check_output", "cmds": cmds, "real": real})
        if real:
            return super(RecordingHostContext, self).check_output(
                cmd, timeout=timeout, keep_rc=keep_rc, env=env, signum=signum)
        out = self._generated(cmds)
        return (0, out) if keep_rc else out

    def shell_out(self, cmd, split=True, timeout=None, keep_rc=False, env=None, signum=None):
        self.calls.append({"via": "shell_out", "cmds": normalise_cmd(cmd), "real": None})
        return super(RecordingHostContext, self).shell_out(
            cmd, split=split, timeout=timeout, keep_rc=keep_rc, env=env, signum=signum)

    @contextmanager
    def connect(self, *cmds, **kwargs):
        ncmds = normalise_cmd(list(cmds))
        real = self._is_real(ncmds)
        self.calls.append({"via": "connect", "cmds": ncmds, "real": real})
        if real:
            with super(RecordingHostContext, self).connect(*cmds, **kwargs) as s:
                yield s
        else:
            yield iter(self._generated(ncmds).splitlines(True))

    @contextmanager
    def stream(self, *args, **kwargs):
        ncmds = normalise_cmd([args[0]] if args else [])
        real = self._is_real(ncmds)
        self.calls.append({"via": "stream", "cmds": ncmds, "real": real})
        if real:
            with super(RecordingHostContext, self).stream(*args, **kwargs) as s:
                yield s
        else:
            yield iter(self._generated(ncmds).splitlines(True))


# ---------------------------------------------------------------------------------------------
# audit trace
# ---------------------------------------------------------------------------------------------

PROCESS_EVENTS = frozenset(["subprocess.Popen", "os.system", "os.exec", "os.posix_spawn", "os.spawn"])
DEFAULT_EVENTS = frozenset(["open"]) | PROCESS_EVENTS
FS_WRITE_EVENTS = frozenset(["os.mkdir", "os.rename", "os.remove", "os.rmdir", "os.symlink", "os.link",
                             "os.truncate", "os.chmod", "os.chown", "shutil.copyfile", "shutil.move",
                             "shutil.rmtree"])

_AUDIT = {"on": False, "needles": None, "events": None, "names": DEFAULT_EVENTS, "installed": False}


def _text(x):
    if isinstance(x, bytes):
        return os.fsdecode(x)
    if isinstance(x, str):
        return x
    try:
        return os.fsdecode(os.fspath(x))
    except TypeError:
        return None


def _audit_hook(event, args):
    st = _AUDIT
    if not st["on"] or event not in st["names"]:
        return
    try:
        if event == "open":
            path = _text(args[0])
            if path is None:        # a file descriptor
                return
            rec = {"event": "open", "path": path, "mode": args[1] if len(args) > 1 else None,
                   "flags": args[2] if len(args) > 2 else None}
            hay = path
        elif event == "subprocess.Popen":
            argv = args[1]
            if isinstance(argv, (str, bytes)):
                argv = [argv]
            argv = [_text(a) or repr(a) for a in (argv or [])]
            rec = {"event": event, "executable": _text(args[0]) if args[0] is not None else None,
                   "argv": argv}
            hay = " ".join(argv) + " " + (rec["executable"] or "")
        else:
            parts = []
            for a in args:
                if isinstance(a, (list, tuple)):
                    parts.extend(_text(x) or repr(x) for x in a)
                elif isinstance(a, (str, bytes)) or hasattr(a, "__fspath__"):
                    parts.append(_text(a) or repr(a))
            rec = {"event": event, "argv": parts}
            hay = " ".join(parts)
        needles = st["needles"]
        if needles is not None and not any(n in hay for n in needles):
            return
        st["events"].append(rec)
    except Exception:  # noqa - an audit hook must never disturb the audited call
        return


def install_audit_hook():
    if not _AUDIT["installed"]:
        sys.addaudithook(_audit_hook)
        _AUDIT["installed"] = True


@contextmanager
def audit_trace(needles=None, names=DEFAULT_EVENTS):
    """Record audit events while the block runs.  needles: only events whose path / argv contains
    one of these substrings (None = everything).  Not re-entrant."""
    install_audit_hook()
    if _AUDIT["on"]:
        raise HarnessError("audit_trace is not re-entrant")
    events = []
    _AUDIT.update(needles=list(needles) if needles is not None else None, events=events,
                  names=frozenset(names), on=True)
    try:
        yield events
    finally:
        _AUDIT.update(on=False, events=None, needles=None, names=DEFAULT_EVENTS)


# ---------------------------------------------------------------------------------------------
# process-global registries of insights-core
# ---------------------------------------------------------------------------------------------

DR_REGISTRIES = ["DELEGATES", "DEPENDENCIES", "DEPENDENTS", "COMPONENTS", "COMPONENTS_BY_TYPE", "ENABLED",
                 "IGNORE", "HIDDEN", "TYPE_OBSERVERS", "MODULE_NAMES", "BASE_MODULE_NAMES",
                 "COMPONENT_IMPORT_CACHE", "COMPONENTS_BY_NAME"]
BLACKLIST_REGISTRIES = ["BLACKLISTED_SPECS", "_FILE_FILTERS", "_COMMAND_FILTERS", "_PATTERN_FILTERS",
                        "_KEYWORD_FILTERS"]
FILTER_REGISTRIES = ["FILTERS", "_CACHE"]


_CONTAINERS = (dict, set, list)


def _copy(v, depth=0):
    """copy of a registry: containers are copied down to three levels, everything else is shared"""
    if isinstance(v, dict):
        if depth >= 2:
            return dict(v)
        return dict((k, _copy(x, depth + 1) if isinstance(x, _CONTAINERS) else x) for k, x in v.items())
    if isinstance(v, set):
        return set(v)
    if isinstance(v, list):
        return list(v)
    return v


_MISSING = object()


def _restore(cur, snap):
    """make `cur` equal to `snap` again, in place (inner containers may be aliased elsewhere, e.g.
    dr.DEPENDENCIES[c] is delegate.dependencies); unchanged entries are not touched"""
    if isinstance(cur, dict):
        if len(cur) != len(snap) or cur.keys() != snap.keys():
            for k in [k for k in cur.keys() if k not in snap]:
                del cur[k]
        get = dict.get          # (never triggers a defaultdict factory)
        for k, v in snap.items():
            c = get(cur, k, _MISSING)
            if c is v:
                continue
            if isinstance(v, _CONTAINERS):
                if c is not _MISSING and type(c) is type(v) or (isinstance(v, dict) and isinstance(c, dict)):
                    if c != v:
                        _restore(c, v)
                    continue
                cur[k] = _copy(v, 1)
            elif c is _MISSING or c != v:
                cur[k] = v
    elif isinstance(cur, set):
        cur.clear()
        cur.update(snap)
    elif isinstance(cur, list):
        cur[:] = snap


class GlobalState(object):
    """Snapshot on enter, in-place restore on exit, of every process-global registry a collection
    case can touch: dr.*, blacklist.*, filters.FILTERS/_CACHE/ENABLED, os.environ, sys.argv, the
    SIGALRM handler (datasource.invoke installs one under HostContext), sys.modules entries added
    under `module_prefix`.  A registry that no longer exists is a harness error, not a violation."""

    def __init__(self, with_filters=True, module_prefix="vp_dyn_"):
        self.with_filters = with_filters
        self.module_prefix = module_prefix
        self.saved = []

    def __enter__(self):
        from insights.core import dr, blacklist
        groups = [(dr, DR_REGISTRIES), (blacklist, BLACKLIST_REGISTRIES)]
        if self.with_filters:
            from insights.core import filters
            groups.append((filters, FILTER_REGISTRIES))
            self.filters_enabled = filters.ENABLED
        for mod, names in groups:
            for n in names:
                obj = getattr(mod, n, None)
                if obj is None or not isinstance(obj, (dict, set, list)):
                    raise HarnessError("registry %s.%s not found (refactored?)" % (mod.__name__, n))
                self.saved.append((mod, n, obj, _copy(obj)))
        self.environ = dict(os.environ)
        self.argv = list(sys.argv)
        self.modules = set(sys.modules)
        try:
            self.sigalrm = signal.getsignal(signal.SIGALRM)
        except ValueError:
            self.sigalrm = None
        return self

    def __exit__(self, *exc):
        for mod, n, obj, snap in self.saved:
            if getattr(mod, n) is not obj:      # somebody re-bound the name: put the object back
                setattr(mod, n, obj)
            _restore(obj, snap)
        self.saved = []
        if self.with_filters:
            from insights.core import filters
            filters.ENABLED = self.filters_enabled
        if dict(os.environ) != self.environ:
            os.environ.clear()
            os.environ.update(self.environ)
        sys.argv[:] = self.argv
        for m in list(sys.modules):
            if m not in self.modules and m.startswith(self.module_prefix):
                del sys.modules[m]
        try:
            signal.alarm(0)
            if self.sigalrm is not None:
                signal.signal(signal.SIGALRM, self.sigalrm)
        except ValueError:          # not in the main thread
            pass
        return False
