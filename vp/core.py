"""Shared machinery: sub-check description, worker loop around Hypothesis, sharding, evidence,
replay files, VIOLATION / KNOWN-FINDING lines and exit codes.

A property module (vp/props/cXX.py) exposes

    PROPERTY   = "C13"
    RULE       = "<how cases are generated and what makes one non-trivial>"
    ASSUMPTIONS = [...]
    SUBS       = [Sub(...), ...]
    REGRESSIONS = [Reg(...), ...]          (optional)
    def selftest(): ...                    (optional; raises on failure -> exit 2)

Every sub-check has a `check(case) -> dict` taking a JSON-serialisable case and returning
{"nontrivial": bool, "labels": [str, ...], "key": <optional hashable for distinctness>} or raising
Violation.  Cases are produced by a Hypothesis strategy (kind "hyp"), by a finite enumeration
(kind "enum") or by a custom sharded routine (kind "custom").
"""
from __future__ import print_function

import collections
import hashlib
import json
import multiprocessing
import os
import sys
import time
import traceback

VERIF = os.path.dirname(os.path.dirname(os.path.abspath(__file__)))
REPO = os.path.realpath(os.environ.get("VERIF_REPO", "/repo"))
# sensitivity runs against scratch trees must not overwrite the committed evidence
EVIDENCE_DIR = os.environ.get("VERIF_EVIDENCE_DIR") or os.path.join(VERIF, "evidence")
REPLAY_DIR = os.path.join(VERIF, "replays")
KNOWN_FILE = os.path.join(VERIF, "known_findings.json")


class Violation(Exception):
    """The property does not hold for the case being checked."""

    def __init__(self, msg, **details):
        Exception.__init__(self, msg)
        self.msg = msg
        self.details = details


class HarnessError(Exception):
    """Something is wrong with the harness itself (exit 2, never a violation)."""


class _BudgetStop(KeyboardInterrupt):
    """Ends a Hypothesis run at once when the wall budget of a sub-check (or of shrinking) is used up.
    Hypothesis lets KeyboardInterrupt through without treating it as a failing example, so neither further
    generation (the expensive part for the larger strategies) nor shrinking goes on after the budget."""


class Sub(object):
    def __init__(self, name, check, strategy=None, enumerate=None, custom=None, quick=200,
                 thorough=2000, workers_quick=2, workers_thorough=16, budget_quick=60.0,
                 budget_thorough=600.0, doc=""):
        self.name = name
        self.check = check
        self.strategy = strategy      # callable(tier) -> hypothesis strategy
        self.enumerate = enumerate    # callable(tier) -> iterable of cases (finite, deterministic)
        self.custom = custom          # callable(tier, seed, shard, nshards, stats) -> None
        self.quick = quick            # examples per worker
        self.thorough = thorough
        self.workers_quick = workers_quick
        self.workers_thorough = workers_thorough
        self.budget_quick = budget_quick
        self.budget_thorough = budget_thorough
        self.doc = doc

    @property
    def kind(self):
        return "hyp" if self.strategy else ("enum" if self.enumerate else "custom")


class Reg(object):
    """A fixed case that bypasses the generator.

    expect="pass": reproducer of a repaired defect or a hand-picked corner (VIOLATION if it fails).
    expect="known": pinned reproducer of a recorded finding (KNOWN-FINDING line if it fails)."""

    def __init__(self, name, sub, case, expect="pass", finding=None):
        self.name = name
        self.sub = sub
        self.case = case
        self.expect = expect
        self.finding = finding


def jdump(obj, **kw):
    return json.dumps(obj, sort_keys=True, default=repr, ensure_ascii=True, **kw)


def case_hash(obj):
    return int(hashlib.sha1(jdump(obj).encode("utf-8")).hexdigest()[:15], 16)


def _origin_in_repo(exc):
    """True when the innermost frame of exc's traceback is code under test (a file below REPO)."""
    tb = exc.__traceback__
    last = None
    while tb is not None:
        last = tb
        tb = tb.tb_next
    if last is None:
        return False
    fn = os.path.realpath(last.tb_frame.f_code.co_filename)
    return fn.startswith(REPO + os.sep)


def _touches_repo(exc):
    tb = exc.__traceback__
    while tb is not None:
        fn = os.path.realpath(tb.tb_frame.f_code.co_filename)
        if fn.startswith(REPO + os.sep):
            return True
        tb = tb.tb_next
    return False


def run_check(sub, case):
    """Run sub.check on one case; normalise the outcome.

    Returns ("ok", info) | ("violation", msg, details) | ("harness", text)."""
    try:
        info = sub.check(case) or {}
        return ("ok", info)
    except Violation as v:
        return ("violation", v.msg, v.details)
    except Exception as e:  # noqa
        try:
            from hypothesis.errors import HypothesisException
            if isinstance(e, HypothesisException):
                raise
        except ImportError:
            pass
        text = "".join(traceback.format_exception(type(e), e, e.__traceback__))
        if _origin_in_repo(e):
            # the code under test blew up where the check expected it to answer
            return ("violation", "unexpected %s raised inside the code under test: %s"
                    % (type(e).__name__, e), {"traceback": text[-3000:]})
        return ("harness", text)


class Stats(object):
    def __init__(self):
        self.evaluations = 0
        self.nontrivial = set()
        self.labels = collections.Counter()
        self.samples = []
        self.failure = None       # (case, msg, details)
        self.harness = None
        self.budget_exhausted = False
        self.exhaustive = False
        self.extra = {}

    def note(self, case, info, max_samples=3):
        self.evaluations += 1
        for lab in info.get("labels", ()):
            self.labels[lab] += 1
        if info.get("nontrivial"):
            key = info.get("key")
            h = case_hash(case if key is None else key)
            if h not in self.nontrivial:
                self.nontrivial.add(h)
                if len(self.samples) < max_samples:
                    self.samples.append(_clip(case))

    def as_dict(self):
        return {"evaluations": self.evaluations, "nontrivial": self.nontrivial,
                "labels": dict(self.labels), "samples": self.samples, "failure": self.failure,
                "harness": self.harness, "budget_exhausted": self.budget_exhausted,
                "exhaustive": self.exhaustive, "extra": self.extra}


def _clip(case, limit=1500):
    s = jdump(case)
    if len(s) <= limit:
        return json.loads(s)
    return {"clipped": s[:limit] + "...", "full_length": len(s)}


def _load_module(prop):
    import importlib
    return importlib.import_module("vp.props.%s" % prop.lower())


def _find_sub(mod, name):
    for s in mod.SUBS:
        if s.name == name:
            return s
    raise HarnessError("no sub-check %r in %s" % (name, mod.PROPERTY))


def _worker(args):
    prop, subname, tier, seed, shard, nshards = args
    st = Stats()
    try:
        mod = _load_module(prop)
        sub = _find_sub(mod, subname)
        if sub.kind == "hyp":
            _run_hyp(sub, tier, seed, st)
        elif sub.kind == "enum":
            _run_enum(sub, tier, shard, nshards, st)
        else:
            sub.custom(tier, seed, shard, nshards, st)
    except Exception as e:  # noqa
        st.harness = "".join(traceback.format_exception(type(e), e, e.__traceback__))
    return st.as_dict()


def _run_enum(sub, tier, shard, nshards, st):
    budget = sub.budget_quick if tier == "quick" else sub.budget_thorough
    t0 = time.time()
    complete = True
    for i, case in enumerate(sub.enumerate(tier)):
        if i % nshards != shard:
            continue
        if time.time() - t0 > budget:
            st.budget_exhausted = True
            complete = False
            break
        r = run_check(sub, case)
        if r[0] == "ok":
            st.note(case, r[1])
        elif r[0] == "violation":
            st.evaluations += 1
            st.failure = (case, r[1], r[2])
            complete = False
            break
        else:
            st.harness = r[1]
            complete = False
            break
    st.exhaustive = complete


def _run_hyp(sub, tier, seed, st):
    import hypothesis
    from hypothesis import given, settings, HealthCheck, Phase

    n = sub.quick if tier == "quick" else sub.thorough
    budget = sub.budget_quick if tier == "quick" else sub.budget_thorough
    shrink_budget = 45.0 if tier == "quick" else 240.0
    t0 = time.time()
    state = {"fail_at": None}

    def body(case):
        now = time.time()
        if st.harness is not None:
            return
        if st.failure is None and now - t0 > budget:
            st.budget_exhausted = True
            raise _BudgetStop()
        if st.failure is not None and now - state["fail_at"] > shrink_budget:
            raise _BudgetStop()   # stop shrinking: the best failure so far is kept
        r = run_check(sub, case)
        if r[0] == "ok":
            if st.failure is None:
                st.note(case, r[1])
            return
        if r[0] == "violation":
            if st.failure is None:
                state["fail_at"] = now
                st.evaluations += 1
            st.failure = (case, r[1], r[2])
            raise Violation(r[1])
        st.harness = r[1]
        raise HarnessError(r[1])

    test = given(sub.strategy(tier))(body)
    test = hypothesis.seed(seed)(test)
    test = settings(max_examples=n, database=None, deadline=None, derandomize=False,
                    report_multiple_bugs=False, print_blob=False,
                    suppress_health_check=list(HealthCheck),
                    phases=[Phase.explicit, Phase.generate, Phase.target, Phase.shrink])(test)
    try:
        test()
    except _BudgetStop:
        pass
    except Violation:
        pass
    except HarnessError:
        pass
    except Exception as e:  # noqa  (Flaky after shrink cut-off, hypothesis internal errors)
        if st.failure is None and st.harness is None:
            st.harness = "".join(traceback.format_exception(type(e), e, e.__traceback__))


def merge(stats_list):
    out = Stats()
    out.exhaustive = bool(stats_list) and all(s["exhaustive"] for s in stats_list)
    for s in stats_list:
        out.evaluations += s["evaluations"]
        out.nontrivial |= s["nontrivial"]
        out.labels.update(s["labels"])
        for c in s["samples"]:
            if len(out.samples) < 3:
                out.samples.append(c)
        if s["failure"] is not None:
            if out.failure is None or len(jdump(s["failure"][0])) < len(jdump(out.failure[0])):
                out.failure = s["failure"]
        if s["harness"] and not out.harness:
            out.harness = s["harness"]
        out.budget_exhausted = out.budget_exhausted or s["budget_exhausted"]
        for k, v in s["extra"].items():
            if isinstance(v, (int, float)) and isinstance(out.extra.get(k, 0), (int, float)):
                out.extra[k] = out.extra.get(k, 0) + v
            else:
                out.extra[k] = v
    return out


def run_sub(prop, sub, tier, seed, workers_override=None):
    nw = sub.workers_quick if tier == "quick" else sub.workers_thorough
    if workers_override:
        nw = workers_override
    jobs = [(prop, sub.name, tier, seed * 1000 + i, i, nw) for i in range(nw)]
    ctx = multiprocessing.get_context("fork")
    pool = ctx.Pool(nw)
    results = []
    # hard wall limit: a code change that makes the code under test loop forever must not hang the
    # check; what was explored until then is reported and the sub-check is marked inconclusive
    budget = sub.budget_quick if tier == "quick" else sub.budget_thorough
    os.environ["VERIF_SUB_BUDGET"] = "%d" % budget      # read by count-bounded custom sub-checks (fuzz campaigns)
    hard = max(420.0, 6.0 * budget) if tier == "quick" else max(2400.0, 4.0 * budget)
    t0 = time.time()
    timed_out = False
    try:
        it = pool.imap_unordered(_worker, jobs)
        for _ in jobs:
            try:
                r = it.next(timeout=max(1.0, hard - (time.time() - t0)))
            except multiprocessing.TimeoutError:
                timed_out = True
                break
            results.append(r)
            if r["failure"] is not None or r["harness"]:
                break
    finally:
        pool.terminate()
        pool.join()
    out = merge(results)
    if timed_out:
        out.extra["hard_timeout"] = True
        out.budget_exhausted = True
        print("INCONCLUSIVE sub-check %s: workers exceeded the hard wall limit of %.0fs and were stopped "
              "(not a violation)" % (sub.name, hard))
    return out


def write_replay(prop, subname, case, msg, details):
    if not os.path.isdir(REPLAY_DIR):
        os.makedirs(REPLAY_DIR)
    doc = {"property": prop, "sub": subname, "case": case, "message": msg, "details": details}
    text = jdump(doc, indent=1)
    h = hashlib.sha1(jdump({"sub": subname, "case": case}).encode()).hexdigest()[:12]
    path = os.path.join(REPLAY_DIR, "%s-%s-%s.json" % (prop, subname, h))
    with open(path, "w") as f:
        f.write(text + "\n")
    return path


def load_known():
    if not os.path.exists(KNOWN_FILE):
        return []
    with open(KNOWN_FILE) as f:
        return json.load(f).get("findings", [])


def write_evidence(prop, tier, seed, level, coverage, assumptions, wall, violations):
    if not os.path.isdir(EVIDENCE_DIR):
        os.makedirs(EVIDENCE_DIR)
    doc = {"property_id": prop, "tier": tier, "seed": seed, "level": level, "coverage": coverage,
           "assumptions": assumptions, "wall_s": round(wall, 2), "violations": violations}
    with open(os.path.join(EVIDENCE_DIR, "%s.json" % prop), "w") as f:
        f.write(jdump(doc, indent=1) + "\n")


def run_property(prop, tier, seed, only=None, workers=None):
    """Returns the process exit code."""
    t0 = time.time()
    mod = _load_module(prop)
    known = dict((k["id"], k) for k in load_known() if k.get("property") == prop)

    if hasattr(mod, "selftest"):
        try:
            mod.selftest()
        except Exception as e:  # noqa
            print("HARNESS-ERROR property=%s selftest failed:" % prop)
            traceback.print_exc()
            return 2

    total = Stats()
    per_sub = {}
    violations = []   # (subname, case, msg, details)
    known_lines = []
    harness = None

    # 1. fixed regression cases
    for reg in getattr(mod, "REGRESSIONS", []):
        if only and reg.sub not in only:
            continue
        sub = _find_sub(mod, reg.sub)
        r = run_check(sub, reg.case)
        if r[0] != "ok":
            total.evaluations += 1
        total.labels["regression-case"] += 1
        if r[0] == "harness":
            harness = "regression %s: %s" % (reg.name, r[1])
            break
        if reg.expect == "known":
            entry = known.get(reg.finding)
            if entry is None or entry.get("status") != "known":
                harness = "regression %s refers to finding %r which is not listed as known in " \
                          "known_findings.json" % (reg.name, reg.finding)
                break
            if r[0] == "violation":
                line = "KNOWN-FINDING: property=%s %s [%s]" % (prop, entry["what"], reg.finding)
                if line not in known_lines:
                    known_lines.append(line)
            else:
                print("note: pinned finding %s no longer reproduces (%s)" % (reg.finding, reg.name))
                total.note(reg.case, r[1])
        else:
            if r[0] == "violation":
                violations.append((reg.sub, reg.case, "regression case %s: %s" % (reg.name, r[1]), r[2]))
            else:
                total.note(reg.case, r[1])

    # 2. generated / enumerated search
    if harness is None:
        if tier == "thorough":
            # the thorough tier of one property is kept within VERIF_THOROUGH_CAP seconds of wall budget (default
            # 1200): the sub-checks' budgets are scaled down together when their sum is larger (a budget that runs
            # out ends a sub-check normally with what was explored - never a violation)
            try:
                cap = float(os.environ.get("VERIF_THOROUGH_CAP", "1200") or 1200)
            except ValueError:
                cap = 1200.0
            chosen = [x for x in mod.SUBS if not only or x.name in only]
            total_budget = sum(x.budget_thorough for x in chosen)
            if total_budget > cap > 0:
                for x in chosen:
                    x.budget_thorough = max(20.0, x.budget_thorough * cap / total_budget)
        for sub in mod.SUBS:
            if only and sub.name not in only:
                continue
            ts = time.time()
            st = run_sub(prop, sub, tier, seed, workers)
            per_sub[sub.name] = {"kind": sub.kind, "evaluations": st.evaluations,
                                 "distinct_nontrivial": len(st.nontrivial),
                                 "labels": dict(st.labels), "wall_s": round(time.time() - ts, 2),
                                 "budget_exhausted": st.budget_exhausted,
                                 "exhaustive": st.exhaustive if sub.kind != "hyp" else False}
            per_sub[sub.name].update(st.extra)
            total.evaluations += st.evaluations
            total.nontrivial |= set((sub.name, h) for h in st.nontrivial)
            for k, v in st.labels.items():
                total.labels["%s:%s" % (sub.name, k)] += v
            for c in st.samples[:2]:
                total.samples.append({"sub": sub.name, "case": c})
            if st.harness:
                harness = "sub-check %s: %s" % (sub.name, st.harness)
                break
            if st.failure is not None:
                case, msg, details = st.failure
                # confirm outside hypothesis, in this (parent) process
                confirmed = None
                for _attempt in range(3):
                    r = run_check(sub, case)
                    if r[0] != "ok":
                        confirmed = r
                        break
                if confirmed is not None and confirmed[0] == "violation":
                    violations.append((sub.name, case, confirmed[1], confirmed[2]))
                elif confirmed is not None:
                    harness = "sub-check %s (while confirming a failure): %s" % (sub.name, confirmed[1])
                    break
                else:
                    # The worker observed the property broken but the case passes when replayed: the
                    # failure depends on an order the engine chose (set iteration, thread timing).  It is
                    # still a violation that was observed; the replay file says that it is not
                    # deterministic.
                    details = dict(details or {})
                    details["reproduced_on_replay"] = False
                    violations.append((sub.name, case, msg + " [observed in a worker; order dependent: "
                                       "passes on some replays]", details))

    wall = time.time() - t0
    if harness is not None:
        print("HARNESS-ERROR property=%s" % prop)
        print(harness)
        return 2

    if not total.samples:
        total.samples = [{"note": "no non-trivial sample recorded"}]
    coverage = {
        "evaluations": total.evaluations,
        "distinct_nontrivial": len(total.nontrivial),
        "rule": getattr(mod, "RULE", ""),
        "samples": total.samples[:8],
        "labels": dict(total.labels),
        "sub_checks": per_sub,
        "exhaustive": bool(per_sub) and all(v["exhaustive"] for v in per_sub.values()),
        "known_findings_reported": len(known_lines),
        "excluded_known": getattr(mod, "EXCLUDED", []),
    }
    write_evidence(prop, tier, seed, "exploration", coverage, getattr(mod, "ASSUMPTIONS", []), wall,
                   len(violations))
    for line in known_lines:
        print(line)
    print("property=%s tier=%s seed=%d evaluations=%d distinct_nontrivial=%d wall=%.1fs" % (
        prop, tier, seed, total.evaluations, len(total.nontrivial), wall))
    for name, ps in per_sub.items():
        print("  %-14s %-6s evals=%-8d nontrivial=%-7d %.1fs%s" % (
            name, ps["kind"], ps["evaluations"], ps["distinct_nontrivial"], ps["wall_s"],
            " (budget exhausted)" if ps["budget_exhausted"] else ""))
    if violations:
        for subname, case, msg, details in violations:
            path = write_replay(prop, subname, case, msg, details)
            print("violation in sub-check %s: %s" % (subname, msg))
            print("VIOLATION property=%s replay=%s" % (prop, path))
        return 1
    return 0


def replay(prop, path):
    mod = _load_module(prop)
    with open(path) as f:
        doc = json.load(f)
    sub = _find_sub(mod, doc["sub"])
    r = run_check(sub, doc["case"])
    if r[0] == "ok":
        print("replay passes: %s" % path)
        return 0
    if r[0] == "violation":
        print("violation: %s" % r[1])
        for k, v in sorted(r[2].items()):
            print("  %s: %s" % (k, str(v)[:2000]))
        print("VIOLATION property=%s replay=%s" % (prop, path))
        return 1
    print("HARNESS-ERROR property=%s\n%s" % (prop, r[1]))
    return 2
