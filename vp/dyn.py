"""Dynamic component graphs for insights.core.dr + an independent reference evaluator.

A case is JSON:

  {"nodes": [node, ...], "seeded": [i..], "disabled": [i..], "store_skips": bool}

  node = {"t": type, "decl": [["req", j] | ["grp", [j, k..]] | ["opt", j], ...],   (j < own index)
          "fault": fault, "multi": k, "efaults": [fault..], "coe": bool}

types   plain (bare dr.ComponentType subclass) | component | combiner | condition | rule | datasource
        | parser | regpoint (a RegistryPoint; decl = one group holding its single implementation)
faults  ok | skip | content | cpe | timeout | boom | boom2
multi   datasource only: 0 = scalar value, k >= 1 = list of k elements (a parser on it runs per element)
efaults parser only: fault of the e-th element invocation (cycled) when its input is a list
coe     parser only: continue_on_error
prio    optional, regpoint / datasource only (default 0): RegistryPoint(prio=N) / datasource(..., prio=N)

Bodies append to a per-case log and return deterministic values that embed a digest of their
arguments, so any change in what a dependency produced is visible in every dependent's value.
The reference evaluator `model()` is written from the property statements (C01-C04) only.
"""
import hashlib
import itertools
import sys
import types

from hypothesis import strategies as st

PLUGIN_TYPES = ["component", "combiner", "condition", "rule", "datasource", "parser"]
ALL_TYPES = ["plain"] + PLUGIN_TYPES + ["regpoint"]
FAULTS = ["ok", "skip", "content", "cpe", "timeout", "boom", "boom2"]
RARE_FAULTS = ["blacklisted"]      # BlacklistedSpec: an ordinary exception as far as accounting goes
MODNAME = "vp_dyn_generated"

_counter = itertools.count()


def digest(obj):
    return hashlib.sha1(repr(obj).encode("utf-8")).hexdigest()[:10]


class Boom2(Exception):
    pass


def make_fault(f, tag):
    from insights.core.exceptions import SkipComponent, ContentException, CalledProcessError, TimeoutException
    if f == "skip":
        return SkipComponent("skip %s" % (tag,))
    if f == "content":
        return ContentException("content %s" % (tag,))
    if f == "cpe":
        return CalledProcessError(1, "cmd %s" % (tag,))
    if f == "timeout":
        return TimeoutException("timeout %s" % (tag,))
    if f == "boom":
        return KeyError("boom %s" % (tag,))
    if f == "boom2":
        return Boom2("boom2 %s" % (tag,))
    if f == "blacklisted":
        from insights.core.exceptions import BlacklistedSpec
        return BlacklistedSpec("blacklisted %s" % (tag,))
    raise AssertionError(f)


# ------------------------------------------------------------------------------------------------
# strategy

def _decl(draw, i, nodes, allow_shapes=True):
    """dependency declaration of node i over nodes < i that may be depended on (not rules)."""
    cand = [j for j in range(i) if nodes[j]["t"] != "rule" and not nodes[j].get("impl_of_pending")]
    if not cand:
        return []
    n = draw(st.integers(0, 4))
    decl = []
    for _ in range(n):
        kind = draw(st.sampled_from(["req", "req", "grp", "grp", "opt"]))
        if kind == "grp":
            members = draw(st.lists(st.sampled_from(cand), min_size=1, max_size=3))
            # no duplicate inside one group (a user never writes [a, a]); sharing across groups is kept
            seen = []
            for m in members:
                if m not in seen:
                    seen.append(m)
            decl.append(["grp", seen])
        else:
            decl.append([kind, draw(st.sampled_from(cand))])
    # written form: positional (req / grp) first in the written order, optional=[...] last
    return [d for d in decl if d[0] != "opt"] + [d for d in decl if d[0] == "opt"]


VALUE_KINDS = ["t"] * 8 + ["false", "zero", "estr", "elist", "edict"]
SEED_KINDS = ["t"] * 5 + ["false", "zero", "elist"]


def falsy(kind):
    return {"false": False, "zero": 0, "estr": "", "elist": [], "edict": {}, "none": None}[kind]


def seed_value(case, i):
    kind = case.get("seed_vals", {}).get(str(i), "t")
    return ("seed", i) if kind == "t" else falsy(kind)


@st.composite
def graphs(draw, min_nodes=2, max_nodes=10, faults=True, types=None, seeds=True, disable=True,
           multi=True, parts=1, none_seeds=False):
    types = types or ALL_TYPES
    n = draw(st.integers(min_nodes, max_nodes))
    nodes = []
    # which part (disconnected sub-graph) a node belongs to: dependencies stay inside a part
    part_of = [draw(st.integers(0, parts - 1)) if parts > 1 else 0 for _ in range(n)]
    for i in range(n):
        t = draw(st.sampled_from(types))
        same = [j for j in range(i) if part_of[j] == part_of[i]]
        node = {"t": t, "decl": [], "fault": "ok", "multi": 0, "efaults": ["ok"], "coe": True}
        if faults:
            node["fault"] = draw(st.sampled_from(FAULTS + ["ok"] * 8 + (RARE_FAULTS if t in ("datasource", "component", "combiner", "plain") else [])))
        view = [nodes[j] if j in same else {"t": "rule"} for j in range(i)]   # other parts look undependable
        if t == "regpoint":
            impls = [j for j in same if nodes[j]["t"] == "datasource" and not nodes[j].get("attached")]
            if not impls:
                node["t"] = t = "datasource"
            else:
                j = draw(st.sampled_from(impls))
                nodes[j]["attached"] = True
                node["decl"] = [["grp", [j]]]
                node["fault"] = "ok"
        if t == "parser":
            cand = [j for j in same if nodes[j]["t"] != "rule"]
            if not cand:
                node["t"] = t = "component"
            else:
                pref = [j for j in cand if nodes[j]["t"] in ("regpoint", "datasource")] or cand
                first = draw(st.sampled_from(pref + cand))
                rest = [d for d in _decl(draw, i, view) if d[0] != "opt"]
                node["decl"] = [["req", first]] + rest[:2]
                node["coe"] = draw(st.booleans())
                if faults:
                    node["efaults"] = draw(st.lists(st.sampled_from(FAULTS + ["ok", "ok"]), min_size=1, max_size=4))
        if t == "datasource":
            node["decl"] = _decl(draw, i, view) if draw(st.booleans()) else []
            if multi:
                node["multi"] = draw(st.sampled_from([0, 0, 1, 2, 3, 4]))
        elif t not in ("regpoint", "parser"):
            node["decl"] = _decl(draw, i, view)
        if t in ("plain", "component", "combiner", "condition", "rule") and node["decl"]:
            node["kwform"] = draw(st.sampled_from([False] * 7 + [True]))
        if t in ("plain", "component", "combiner", "condition"):
            # what the body returns: a tuple embedding its arguments, or a falsy but perfectly valid value
            node["val"] = draw(st.sampled_from(VALUE_KINDS))
        nodes.append(node)
    for nd in nodes:
        nd.pop("attached", None)
    case = {"nodes": nodes, "seeded": [], "disabled": [], "store_skips": draw(st.booleans())}
    if seeds:
        case["seeded"] = sorted(draw(st.sets(st.integers(0, n - 1), max_size=3)))
        kinds = SEED_KINDS + (["none", "none"] if none_seeds else [])
        case["seed_vals"] = dict((str(i), draw(st.sampled_from(kinds))) for i in case["seeded"])
    if disable:
        case["disabled"] = sorted(draw(st.sets(st.integers(0, n - 1), max_size=2)))
    return case


# ------------------------------------------------------------------------------------------------
# building the real components

class Built(object):
    def __init__(self):
        self.comps = []
        self.log = []          # ("call", i, args|None, elem|None) and ("obs", i) events, in order
        self.raised = {}       # (i, elem|None) -> exception object raised by the body
        self.extra = []        # other registered objects to clean up (spec set classes)
        self.index = {}
        self.hook = None       # optional callable(i, type, elem) run inside every body after the call is logged


def _plain_type():
    from insights.core import dr

    class plain(dr.ComponentType):
        pass
    return plain


_PLAIN = []


def type_of(name):
    from insights.core import plugins
    if name == "plain":
        if not _PLAIN:
            _PLAIN.append(_plain_type())
        return _PLAIN[0]
    return getattr(plugins, name)


def build(case, attach=True):
    """attach=False: the registry points are declared but no implementation is bound to them yet (no
    implementing SpecSet subclass is created); the caller binds implementations later through
    bind_impl() - what loading a spec package late does.  b.reg_cls is the declaring class."""
    from insights.core import dr
    from insights.core.plugins import make_pass
    from insights.core.spec_factory import RegistryPoint, SpecSet

    mod = sys.modules.get(MODNAME)
    if mod is None:
        mod = types.ModuleType(MODNAME)
        sys.modules[MODNAME] = mod
    uid = next(_counter)
    b = Built()
    nodes = case["nodes"]
    # registry points first (a spec set class that declares them)
    rp_names = dict((i, "rp%d_%d" % (uid, i)) for i, nd in enumerate(nodes) if nd["t"] == "regpoint")
    reg_cls = None
    if rp_names:
        # optional node key "prio" (default 0): the documented RegistryPoint(prio=N) spec option
        dct = dict((name, RegistryPoint(multi_output=True, prio=int(nodes[i].get("prio", 0))))
                   for i, name in rp_names.items())
        dct["__module__"] = MODNAME
        reg_cls = type("Reg%d" % uid, (SpecSet,), dct)
        b.extra.append(reg_cls)
    comps = b.comps
    impl_attach = {}
    for i, nd in enumerate(nodes):
        name = "n%d_%d" % (uid, i)
        t = nd["t"]
        if t == "regpoint":
            comps.append(reg_cls.registry[rp_names[i]])
            impl_attach[rp_names[i]] = nd["decl"][0][1][0]
            continue
        pos, opt, flat = [], [], []
        for d in nd["decl"]:
            if d[0] == "req":
                pos.append(comps[d[1]])
                flat.append(d[1])
            elif d[0] == "grp":
                pos.append([comps[j] for j in d[1]])
                flat.extend(d[1])
        for d in nd["decl"]:
            if d[0] == "opt":
                opt.append(comps[d[1]])
                flat.append(d[1])

        def body(*a, **kw):
            _i, _nd, _t, _flat, _name = kw.pop("_i"), kw.pop("_nd"), kw.pop("_t"), kw.pop("_flat"), kw.pop("_name")
            elem = None
            if _t == "datasource":
                broker = a[0]
                args = tuple(broker.get(comps[j]) for j in _flat)
                fault = _nd["fault"]
            elif _t == "parser":
                args = (a[0],)
                elems = [e for e in b.log if e[0] == "call" and e[1] == _i]
                if isinstance(a[0], tuple) and a[0] and a[0][0] in ("e", "pe"):
                    elem = len(elems)
                    fault = _nd["efaults"][elem % len(_nd["efaults"])]
                else:
                    fault = _nd["fault"]
            else:
                args = tuple(a)
                fault = _nd["fault"]
            b.log.append(("call", _i, args, elem))
            if b.hook is not None:
                b.hook(_i, _t, elem)
            if fault != "ok":
                exc = make_fault(fault, (_i, elem))
                b.raised[(_i, elem)] = exc
                raise exc
            if _t == "rule":
                return make_pass("K%d" % _i, v=digest(args))
            if _t == "datasource" and _nd["multi"]:
                return [("e", _i, k) for k in range(_nd["multi"])]
            if elem is not None:
                return ("pe", _i, digest(args))
            if _nd.get("val", "t") != "t":
                return falsy(_nd["val"])
            return ("v", _i, digest(args))

        def bind(i=i, nd=nd, t=t, flat=flat, name=name):
            def fn(*a):
                return body(*a, _i=i, _nd=nd, _t=t, _flat=flat, _name=name)
            fn.__name__ = fn.__qualname__ = name
            fn.__module__ = MODNAME
            return fn
        fn = bind()
        setattr(mod, name, fn)
        ctype = type_of(t)
        if t == "parser":
            deco = ctype(*pos, continue_on_error=nd["coe"])
        elif nd.get("kwform") and pos:
            # the documented (deprecated) keyword spelling of the same declaration
            deco = ctype(requires=list(pos), optional=opt) if opt else ctype(requires=list(pos))
        elif t == "datasource" and nd.get("prio"):
            # optional node key "prio" on a datasource: the same option given to the datasource itself
            # (spec factories pass it through, e.g. simple_file(path, prio=N))
            deco = ctype(*pos, optional=opt, prio=int(nd["prio"])) if opt else ctype(*pos, prio=int(nd["prio"]))
        elif opt:
            deco = ctype(*pos, optional=opt)
        else:
            deco = ctype(*pos)
        comps.append(deco(fn))
    b.reg_cls = reg_cls
    if impl_attach and attach:
        dct = dict((rpname, comps[j]) for rpname, j in impl_attach.items())
        dct["__module__"] = MODNAME
        impl_cls = type("Impl%d" % uid, (reg_cls,), dct)
        b.extra.append(impl_cls)
    b.index = dict((c, i) for i, c in enumerate(comps))
    return b


def bind_impl(b, rp, impl, tag):
    """Registers the datasource of node `impl` as an implementation of the registry point of node `rp`
    by defining a SpecSet subclass of the declaring class (the only public way), after build(attach=False)
    or in addition to what build() attached."""
    name = b.comps[rp].__name__
    cls = type("Late%s" % (tag,), (b.reg_cls,), {name: b.comps[impl], "__module__": MODNAME})
    b.extra.append(cls)
    return cls


def re_generated(name):
    return isinstance(name, str) and (name.startswith("rp") and "_" in name)


def cleanup(b):
    from insights.core import dr
    from insights.core import blacklist
    # run_components notes the specs of a component that raised BlacklistedSpec in a global list
    for name in [n for n in blacklist.BLACKLISTED_SPECS if re_generated(n)]:
        blacklist.BLACKLISTED_SPECS.remove(name)
    mod = sys.modules.get(MODNAME)
    comps = list(b.comps)
    for c in comps:
        for reg in (dr.DELEGATES, dr.DEPENDENCIES, dr.DEPENDENTS, dr.MODULE_NAMES, dr.BASE_MODULE_NAMES,
                    dr.ENABLED, dr.IGNORE):
            reg.pop(c, None)
        for grp in list(dr.COMPONENTS.keys()):
            dr.COMPONENTS[grp].pop(c, None)
        for s in dr.COMPONENTS_BY_TYPE.values():
            s.discard(c)
        dr.HIDDEN.discard(c)
        n = getattr(c, "__name__", None)
        if mod is not None and n and hasattr(mod, n):
            try:
                delattr(mod, n)
            except AttributeError:
                pass
    b.comps = []
    b.log = []


def flat_deps(nd):
    out = []
    for d in nd["decl"]:
        if d[0] == "req":
            out.append(d[1])
        elif d[0] == "grp":
            out.extend(d[1])
    for d in nd["decl"]:
        if d[0] == "opt":
            out.append(d[1])
    return out


def dep_set(nd):
    return set(flat_deps(nd))


# ------------------------------------------------------------------------------------------------
# reference evaluator

class Expect(object):
    def __init__(self):
        self.val = {}        # i -> model value (JSON-ish python value, tuples as tuples)
        self.invoked = {}    # i -> list of (args, elem) in invocation order
        self.missing = {}    # i -> (missing required [j..], unsatisfied groups [[j..]..])  non-rules
        self.faults = {}     # i -> list of (fault kind, elem) raised by the component's body
        self.skipped_self = set()   # components whose own invocation ended in a skip of any kind


def model(case, active=None):
    """What the property statements prescribe for this case.

    active: the set of node indices that take part in the evaluation (None = all)."""
    nodes = case["nodes"]
    ex = Expect()
    val = ex.val
    for i in case["seeded"]:
        val[i] = seed_value(case, i)
    for i, nd in enumerate(nodes):
        if i in val:
            continue
        if active is not None and i not in active:
            continue
        if i in case["disabled"]:
            continue
        mreq, mgrp = [], []
        for d in nd["decl"]:
            if d[0] == "req":
                if d[1] not in val:
                    mreq.append(d[1])
            elif d[0] == "grp":
                if not any(j in val for j in d[1]):
                    mgrp.append(list(d[1]))
        t = nd["t"]
        if mreq or mgrp:
            if t == "rule":
                val[i] = ("SKIPRESP", mreq, mgrp)
            else:
                ex.missing[i] = (mreq, mgrp)
            continue
        if t == "regpoint":
            # a spec is supplied by its (single) implementation
            val[i] = val[nd["decl"][0][1][0]]
            continue
        flat = flat_deps(nd)
        args = tuple(val.get(j) for j in flat)
        if t == "parser":
            first = val[nd["decl"][0][1]]
            if isinstance(first, list):
                results = []
                failed_all = False
                calls = []
                for k, el in enumerate(first):
                    f = nd["efaults"][k % len(nd["efaults"])]
                    calls.append(((el,), k))
                    if f == "ok":
                        results.append(("pe", i, digest((el,))))
                        continue
                    ex.faults.setdefault(i, []).append((f, k))
                    if f != "skip" and not nd["coe"]:
                        failed_all = True
                        break
                if calls:
                    ex.invoked[i] = calls
                if failed_all or not results:
                    ex.skipped_self.add(i)
                else:
                    val[i] = results
                continue
            args = (first,)
        ex.invoked[i] = [(args, None)]
        f = nd["fault"]
        if f == "ok":
            if t == "rule":
                val[i] = ("RULE", "pass", "K%d" % i, digest(args))
            elif t == "datasource" and nd["multi"]:
                val[i] = [("e", i, k) for k in range(nd["multi"])]
            elif nd.get("val", "t") != "t":
                val[i] = falsy(nd["val"])
            else:
                val[i] = ("v", i, digest(args))
        else:
            ex.faults[i] = [(f, None)]
            ex.skipped_self.add(i)
    return ex


def closure(case, targets):
    nodes = case["nodes"]
    seen = set()
    stack = list(targets)
    while stack:
        i = stack.pop()
        if i in seen:
            continue
        seen.add(i)
        stack.extend(dep_set(nodes[i]))
    return seen


def norm_value(b, v):
    """Real broker value -> model representation."""
    from insights.core.plugins import Response
    if isinstance(v, Response):
        if v.get("type") == "skip":
            mreq = [b.index.get(x, repr(x)) for x in v.missing[0]]
            mgrp = [[b.index.get(x, repr(x)) for x in g] for g in v.missing[1]]
            return ("SKIPRESP", mreq, mgrp)
        return ("RULE", v.get("type"), v.get_key() if hasattr(v, "get_key") else None, v.get("v"))
    return v


def to_json(v):
    if isinstance(v, (tuple, list)):
        return [to_json(x) for x in v]
    return v


# ------------------------------------------------------------------------------------------------
# drivers

def linear_extension(case, active, prio):
    """A linear extension of the dependency order over `active`, chosen by priorities (Kahn)."""
    nodes = case["nodes"]
    active = sorted(active)
    remaining = set(active)
    done = []
    placed = set()
    while remaining:
        ready = [i for i in remaining if all((d not in remaining) for d in dep_set(nodes[i]))]
        ready.sort(key=lambda i: (prio[i % len(prio)] if prio else 0, i))
        pick = ready[0]
        remaining.discard(pick)
        placed.add(pick)
        done.append(pick)
    return done


DRIVERS = ["run_full", "run_targets", "run_components", "run_subset", "run_single_target", "run_group"]


@st.composite
def driver(draw, n, kinds=None):
    kind = draw(st.sampled_from(kinds or DRIVERS))
    d = {"kind": kind}
    if kind in ("run_targets", "run_single_target"):
        k = 1 if kind == "run_single_target" else draw(st.integers(1, min(3, n)))
        d["targets"] = sorted(draw(st.sets(st.integers(0, n - 1), min_size=k, max_size=k)))
    if kind == "run_subset":
        d["subset"] = sorted(draw(st.sets(st.integers(0, n - 1), min_size=1, max_size=n)))
    if kind == "run_components":
        d["prio"] = draw(st.lists(st.integers(0, 50), min_size=1, max_size=n))
    return d


def active_set(case, drv):
    n = len(case["nodes"])
    kind = drv["kind"]
    if kind in ("run_targets", "run_single_target"):
        return closure(case, drv["targets"])
    if kind == "run_subset":
        return set(drv["subset"])
    return set(range(n))


def execute(case, b, drv, observers=(), graphs=None, prepare=None, broker=None):
    """Runs the real engine.  Returns (broker, escaped exception or None).

    prepare: optional callable(broker) run on the fresh broker before the engine starts (what a caller
    puts into the broker besides seeds, e.g. the execution context).

    graphs: optional dict kept by the caller across several calls; the graph object built for the
    driver is stored there and handed to the engine again (a caller that evaluates the same graph
    dict repeatedly, as dr.run() on a group or cluster processing do).

    broker: optional broker an earlier call returned: the engine is started again on that very broker
    (a caller that evaluates repeatedly on one broker, as the interactive shell does); nothing is
    seeded, registered or prepared a second time."""
    from insights.core import dr
    comps = b.comps
    nodes = case["nodes"]
    again = broker is not None
    if not again:
        broker = dr.Broker()
        broker.store_skips = case["store_skips"]
        for i in case["seeded"]:
            broker[comps[i]] = seed_value(case, i)
    for i in case["disabled"]:
        dr.set_enabled(comps[i], False)

    def recorder(c, brk):
        b.log.append(("obs", b.index.get(c, -1)))
    if not again:
        broker.add_observer(recorder)
        for o in observers:
            broker.add_observer(o[0], o[1])
        if prepare is not None:
            prepare(broker)
    kind = drv["kind"]
    escaped = None

    def full_graph():
        return dict((c, set(comps[j] for j in dep_set(nodes[i]))) for i, c in enumerate(comps))

    def cached(build):
        if graphs is None:
            return build()
        if kind not in graphs:
            graphs[kind] = build()
        return graphs[kind]
    try:
        if kind == "run_full":
            dr.run(cached(full_graph), broker=broker)
        elif kind == "run_targets":
            dr.run([comps[i] for i in drv["targets"]], broker=broker)
        elif kind == "run_single_target":
            dr.run(comps[drv["targets"][0]], broker=broker)
        elif kind == "run_subset":
            dr.run(cached(lambda: dict((comps[i], set(comps[j] for j in dep_set(nodes[i]))) for i in drv["subset"])),
                   broker=broker)
        elif kind == "run_components":
            graph = cached(full_graph)
            order = [comps[i] for i in linear_extension(case, range(len(comps)), drv["prio"])]
            dr.run_components(order, graph, broker)
        elif kind == "run_group":
            # the graph dr.run() uses when it is given a component group: the registry's own
            # per-group dependency sets (the very objects, restricted to this case's components)
            reg = dr.COMPONENTS[dr.GROUPS.single]
            dr.run(cached(lambda: dict((c, reg[c]) for c in comps)), broker=broker)
        elif kind in ("run_incremental", "run_all", "run_all_pool"):
            graph = cached(full_graph)
            if kind == "run_incremental":
                list(dr.run_incremental(graph, broker=broker))
            elif kind == "run_all":
                dr.run_all(graph, broker=broker)
            else:
                from concurrent.futures import ThreadPoolExecutor
                with ThreadPoolExecutor(drv.get("pool", 2)) as pool:
                    dr.run_all(graph, broker=broker, pool=pool)
        else:
            raise AssertionError(kind)
    except Exception as e:  # noqa
        escaped = e
    return broker, escaped
