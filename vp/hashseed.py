"""Run a serialised batch of cases in child interpreters under PYTHONHASHSEED=k (DESIGN.md 1.1).

    results = run_batch("vp.props.c10:child_run", cases, [0, 1, 2, 17])
    results[17][i]  ->  what child_run(cases[i]) returned in an interpreter started with
                        PYTHONHASHSEED=17 (JSON round-tripped)

* one fresh interpreter per hash seed and batch (`/venv/bin/python`, i.e. sys.executable), started
  with PYTHONPATH = <tree under test>:/verif, PYTHONDONTWRITEBYTECODE=1, logging disabled; the
  children of one batch run concurrently (at most `parallel` at a time);
* the batch travels as JSON on stdin, the answers as one JSON document on stdout, so only
  JSON-serialisable cases/answers are possible (which is what replay files need anyway);
* `target` is "module:function"; the function is called once per case.  An exception escaping it is
  returned as {"__exc__": "Type: message", "in_repo": bool} instead of killing the batch, so the
  caller can tell "the code under test raised" (in_repo) from a harness bug;
* the child verifies that it really runs under the requested seed and from the requested tree; any
  failure to start, time-out, or malformed answer raises HarnessError (exit 2), never a violation.

`seeds_for(verif_seed, n)` derives the hash-seed set of a run from VERIF_SEED: always 0, 1, 2 plus
n-3 further values from a fixed multiplicative sequence (no RNG, no wall clock)."""
import json
import os
import subprocess
import sys
import tempfile

from vp.core import REPO, VERIF, HarnessError

_CHILD = r"""
import json, os, sys, traceback, importlib, logging
logging.disable(logging.CRITICAL)
req = json.loads(sys.stdin.read())
assert os.environ.get("PYTHONHASHSEED") == str(req["hashseed"]), "hash seed not propagated"
repo = os.path.realpath(req["repo"])
import insights
got = os.path.realpath(os.path.dirname(os.path.dirname(insights.__file__)))
assert got == repo, "insights imported from %s, expected %s" % (got, repo)
modname, fname = req["target"].split(":")
fn = getattr(importlib.import_module(modname), fname)
out = []
for case in req["cases"]:
    try:
        out.append(fn(case))
    except Exception as e:
        tb = e.__traceback__
        last = None
        while tb is not None:
            last = tb
            tb = tb.tb_next
        where = os.path.realpath(last.tb_frame.f_code.co_filename) if last else ""
        out.append({"__exc__": "%s: %s" % (type(e).__name__, e), "in_repo": where.startswith(repo + os.sep),
                    "traceback": "".join(traceback.format_exception(type(e), e, e.__traceback__))[-1500:]})
sys.stdout.write("\n@@RESULT@@" + json.dumps({"hashseed": req["hashseed"], "results": out}))
"""


def seeds_for(verif_seed, n):
    """n distinct hash seeds (valid range 0..4294967295), always containing 0, 1 and 2"""
    out = [0, 1, 2]
    x = (int(verif_seed) * 2654435761 + 12345) % 4294967296
    while len(out) < n:
        x = (x * 1103515245 + 12345) % 4294967296
        v = x % 1000003 + 3
        if v not in out:
            out.append(v)
    return out[:max(n, 1)]


def _env(hashseed, repo):
    env = dict(os.environ)
    env["PYTHONHASHSEED"] = str(hashseed)
    env["PYTHONPATH"] = repo + os.pathsep + VERIF
    env["PYTHONDONTWRITEBYTECODE"] = "1"
    env["VERIF_REPO"] = repo
    return env


def run_batch(target, cases, hashseeds, repo=None, timeout=300, parallel=8):
    """-> {hashseed: [answer per case]}"""
    repo = os.path.realpath(repo or REPO)
    results = {}
    pending = list(hashseeds)
    while pending:
        chunk, pending = pending[:parallel], pending[parallel:]
        procs = []
        for k in chunk:
            # the payload goes through an unnamed temp file so that all children of the chunk start
            # working at once and nothing can block on a pipe
            payload = json.dumps({"hashseed": k, "repo": repo, "target": target, "cases": cases})
            f = tempfile.TemporaryFile()
            f.write(payload.encode("utf-8"))
            f.seek(0)
            p = subprocess.Popen([sys.executable, "-c", _CHILD], stdin=f, stdout=subprocess.PIPE,
                                 stderr=subprocess.PIPE, env=_env(k, repo), cwd=VERIF)
            f.close()
            procs.append((k, p))
        for k, p in procs:
            try:
                out, err = p.communicate(timeout=timeout)
            except subprocess.TimeoutExpired:
                for _, q in procs:
                    q.kill()
                    q.communicate()
                raise HarnessError("child interpreter (PYTHONHASHSEED=%s) timed out after %ss" % (k, timeout))
            text = out.decode("utf-8", "replace")
            if p.returncode != 0 or "@@RESULT@@" not in text:
                for _, q in procs:
                    if q.poll() is None:
                        q.kill()
                        q.communicate()
                raise HarnessError("child interpreter (PYTHONHASHSEED=%s) failed with exit %s:\n%s" % (
                    k, p.returncode, err.decode("utf-8", "replace")[-3000:]))
            doc = json.loads(text.split("@@RESULT@@", 1)[1])
            if doc.get("hashseed") != k or len(doc.get("results", [])) != len(cases):
                raise HarnessError("child interpreter (PYTHONHASHSEED=%s) returned a malformed answer" % k)
            results[k] = doc["results"]
    return results
