"""Structured content for the cleaner / filter checks (DESIGN.md 2.2) - used by C08 and C10.

Content is built from *parts whose positions are known to the harness*:

    case["lines"] = [ {"tag": 7, "tagpos": "start"|"end", "parts": [[kind, text], ...]}, ... ]

``render_line`` concatenates the tag ``#<n>#`` and the parts; ``spans`` gives back where every part
sits in the rendered line, ``claimed`` decides from the *rendered neighbours* whether an occurrence
is one the cleaner's recognisers claim (DESIGN.md C08, exclusions X) - so a hand-written or shrunk
case can never make a check demand more than the generator domain allows.

Part kinds
    fill    delimiters and filler words (never forms or extends a sensitive token, never
            contains "password", an upper-case letter or a digit outside the ":80"/"/24" suffixes)
    ip      canonical dotted quad (first octet 1-255, no leading zeros)
    mac     six hex pairs joined by one separator (':' or '-'), lower / upper / mixed case
    short   the system's short host name (literal case)
    fqdn    the system's fully qualified name
    host    another host in the system's domain:  label(.label)*.<domain>
    kw      a configured keyword (plain substring semantics: any neighbour is fine)
    pw      "password<suffix><separator><secret>[closing quote]"; part = [kind, text, secret]
    raw     anything else (used by C10 for competing tokens; never checked for leaks)

Alphabets are kept disjoint where an oracle needs it:
    tag      '#' + digits + '#'      ('#' is used by nothing else)
    filler   lower-case words + punctuation (no digits, no upper case, no '.'/':' next to hex)
    keywords (C08) two or more letters of G-Z, optionally one inner symbol of "~ &%!" - nothing an
             obfuscator can emit (hex digits, "host<N>.example.com", "keyword<N>", "********",
             "10.230.x.y") contains an upper-case G-Z letter
    secrets  (C08) over the masker's class, always containing one of "@$^()+=/" and only the
             letters A-F/a-f - no keyword, filler word or host stem fits inside
    host stems contain a letter of g-z, so they never occur inside a hex digest

Public API
    strategies  world() -> pools {fqdn, hosts, ips, macs, keywords};  content(world, max_lines,
                max_tokens, netstat) / line(world, n) / netstat_line(world, n) -> line dicts;
                token(world, kinds), ipv4(), mac(), fqdn(), short_name(), other_host(domain),
                keyword(), secret(), password_part(), gap(kind_a, kind_b);  die(n) / rarely(n) =
                dice that are not skewed by Hypothesis' preference for the first element
    pure        render(lines), render_line(line), spans(line), tags_of(text), claimed(kind,
                rendered, start, end, part), well_formed, left_ok/right_ok (the neighbour rules),
                ip_relatives(ip), is_loopback(ip), is_ignored_mac(mac), domain_of(fqdn),
                selftest() (vocabulary constraints the oracles rely on)

Everything random is drawn from Hypothesis strategies (no own RNG)."""
import re
import string

from hypothesis import strategies as st

TAG_RE = re.compile(r"#(\d+)#")
WORD = frozenset(string.ascii_letters + string.digits + "_")
HEX = frozenset(string.hexdigits)
DIGITS = frozenset(string.digits)
SECRET_CLASS = frozenset(string.ascii_letters + string.digits + "_!@#$%^&*()+=/-")

# what the obfuscators can emit (used to validate the vocabularies below)
EMITTED_WORDS = ["example.com", "host", "keyword", "********", "localhost", "password"]

FILLER_WORDS = ["link", "is", "up", "now", "route", "our", "unit", "mtu", "zone", "slot", "rx", "tx",
                "sync", "run", "log", "to", "on", "in", "no", "hop", "twin", "input", "qlen", "ttl",
                "lost", "hit", "miss", "timer", "ring", "queue", "irq", "usr", "tmp", "trust", "inet"]
HOST_STEMS = ["web", "node", "srv", "mail", "gate", "app", "ldap", "proxy", "vm", "Kiln", "NAS"]
DOMAINS = ["corp.acme.org", "lab.rhtest.net", "int.big-co.io", "prod.dc1.zone9.biz", "acme.org", "site"]
LABELS = ["db", "a-b", "x_1", "proddb", "mx2", "www", "n0de", "store-07", "api", "_srv", "k8s", "B2B"]

UNIVERSAL_DELIMS = [" ", "\t", ",", ";", "[", "]", "{", "}", "<", ">", "'", '"', "|", "?", "~", "\\"]
MORE_DELIMS = ["(", ")", "=", "@", "!", "+", "*", "&", "%", "$", "/", ":", "-", ".", "_"]
ALL_DELIMS = UNIVERSAL_DELIMS + MORE_DELIMS

TOKEN_KINDS = ("ip", "mac", "short", "fqdn", "host", "kw", "pw")
HOST_KINDS = ("short", "fqdn", "host")


def die(n):
    """uniform choice of 0..n-1 (st.integers over-weights 0 and the bounds, which skews `== 0` dice)"""
    return st.sampled_from(range(n))


def rarely(n):
    """True with probability ~1/n; False is the first (= over-weighted and shrink-to) element"""
    return st.sampled_from([False] * (n - 1) + [True])


def tag(n):
    return "#%d#" % n


def tags_of(text):
    """all tag numbers found in a piece of output"""
    return [int(m) for m in TAG_RE.findall(text)]


def render_line(line):
    body = "".join(p[1] for p in line["parts"])
    if line.get("tag") is None:
        return body
    if line.get("tagpos", "start") == "end":
        return body + tag(line["tag"])
    return tag(line["tag"]) + body


def render(lines):
    return [render_line(l) for l in lines]


def spans(line):
    """[(kind, text, start, end, part)] of every part in the rendered line"""
    pos = 0
    if line.get("tag") is not None and line.get("tagpos", "start") != "end":
        pos = len(tag(line["tag"]))
    out = []
    for p in line["parts"]:
        out.append((p[0], p[1], pos, pos + len(p[1]), p))
        pos += len(p[1])
    return out


# ---- which occurrences do the recognisers claim (C08 X) -----------------------------------------

def left_ok(kind, ch):
    """may `ch` ('' = line start) stand immediately left of a token of this kind?"""
    if ch == "" or kind in ("kw", "pw", "fill", "raw"):
        return True
    if kind == "ip":
        return ch not in WORD and ch != "."
    if kind == "mac":
        return ch not in WORD and ch not in ":-"
    if kind in HOST_KINDS:
        return ch not in WORD and ch not in ".-"
    raise ValueError(kind)


def right_ok(kind, ch, ch2=""):
    """may `ch` ('' = line end; ch2 = the character after it) stand immediately right of it?"""
    if kind in ("kw", "fill", "raw"):
        return True
    if kind == "pw":                       # the secret must be terminated
        return ch == "" or ch not in SECRET_CLASS
    if ch == "":
        return True
    if kind == "ip":
        if ch == ".":                      # trailing sentence dot, not another octet
            return ch2 == "" or (ch2 not in DIGITS and ch2 not in WORD and ch2 != ".")
        return ch not in WORD
    if kind == "mac":
        return ch not in WORD and ch not in ":-"
    if kind in HOST_KINDS:
        return ch not in WORD and ch not in ".-"
    raise ValueError(kind)


_IP_RE = re.compile(r"(25[0-5]|2[0-4][0-9]|1[0-9][0-9]|[1-9][0-9]|[1-9])(\.(25[0-5]|2[0-4][0-9]|1[0-9][0-9]|[1-9][0-9]|[0-9])){3}\Z")
_MAC_RE = re.compile(r"[0-9A-Fa-f]{2}([:-])(?:[0-9A-Fa-f]{2}\1){4}[0-9A-Fa-f]{2}\Z")
PW_SEPARATORS = [":", ": ", " : ", ':"', ': "', '="', ' = "', "=", " = ", "= ", "==", " --md5 ", "--md5 ",
                 " ", "  ", "\t"]
_PW_RE = re.compile(r'password[A-Za-z0-9_]*?(%s)' % "|".join(re.escape(s) for s in
                                                             sorted(PW_SEPARATORS, key=len, reverse=True)))


def well_formed(kind, text, part=None):
    """is the token itself inside the domain the property speaks about?"""
    if kind == "ip":
        return bool(_IP_RE.match(text))
    if kind == "mac":
        return bool(_MAC_RE.match(text))
    if kind == "pw":
        secret = part[2] if part is not None and len(part) > 2 else None
        if not secret or any(c not in SECRET_CLASS for c in secret) or not text.startswith("password"):
            return False
        body = text[:-1] if text.endswith('"') and not secret.endswith('"') else text
        if not body.endswith(secret):
            return False
        head = body[:-len(secret)]
        m = re.match(r"password[A-Za-z0-9_]*", head)
        return head[m.end():] in PW_SEPARATORS and "password" not in secret
    return bool(text)


def claimed(kind, rendered, start, end, part=None):
    """True when the occurrence rendered[start:end] is one the cleaner's recognisers claim: the
    token is well formed and not glued to characters of its own syntax (DESIGN C08 X)."""
    text = rendered[start:end]
    if not well_formed(kind, text, part):
        return False
    lch = rendered[start - 1] if start > 0 else ""
    rch = rendered[end] if end < len(rendered) else ""
    rch2 = rendered[end + 1] if end + 1 < len(rendered) else ""
    if rch == "\n":
        rch = ""
    return left_ok(kind, lch) and right_ok(kind, rch, rch2)


def is_loopback(ip):
    return ip.split(".")[0] == "127"


def is_ignored_mac(mac):
    pairs = re.split("[:-]", mac.lower())
    return all(p == "00" for p in pairs) or all(p == "ff" for p in pairs)


def selftest():
    """vocabulary constraints the oracles rely on; raises AssertionError"""
    for w in FILLER_WORDS:
        assert w == w.lower() and w.isalpha(), w
        assert "password" not in w
    for s in HOST_STEMS:
        assert any(c.lower() in "ghijklmnopqrstuvwxyz" for c in s), s
        for e in EMITTED_WORDS + FILLER_WORDS:
            assert s not in e and s.lower() not in e, (s, e)
    for d in DOMAINS:
        assert "example" not in d
        for s in HOST_STEMS:
            assert s not in d
    assert claimed("ip", "x 1.2.3.4:80", 2, 9) and not claimed("ip", "x 1.2.3.4.5", 2, 9)
    assert claimed("ip", "1.2.3.4. ", 0, 7) and not claimed("ip", "v1.2.3.4", 1, 8)
    assert not claimed("ip", "01.2.3.4", 0, 8) and not claimed("ip", "0.2.3.4", 0, 7)
    assert claimed("mac", "(aa:bb:cc:dd:ee:0F)", 1, 18) and not claimed("mac", "aa:bb:cc:dd:ee:0f:", 0, 17)
    assert not claimed("mac", "aa:bb-cc:dd:ee:0f", 0, 17)
    assert claimed("fqdn", "=web1.a.org,", 1, 11) and not claimed("fqdn", "x.web1.a.org", 2, 12)
    assert claimed("pw", "password: S@1 x", 0, 13, ["pw", "password: S@1", "S@1"])
    assert not claimed("pw", "password: S@1#x", 0, 13, ["pw", "password: S@1", "S@1"])
    assert claimed("pw", 'password="S@1"', 0, 14, ["pw", 'password="S@1"', "S@1"])
    assert not claimed("pw", "password' S@1", 0, 13, ["pw", "password' S@1", "S@1"])
    assert tags_of("#3# a #12#") == [3, 12]


# ---- token strategies ------------------------------------------------------------------------------

_octet = st.one_of(st.sampled_from([0, 1, 2, 9, 10, 12, 25, 45, 99, 100, 127, 199, 200, 230, 249, 250, 255]),
                   st.integers(0, 255))
_first_octet = st.one_of(st.sampled_from([1, 9, 10, 11, 19, 100, 110, 127, 172, 192, 249, 255]),
                         st.integers(1, 255))


@st.composite
def ipv4(draw):
    special = draw(die(12))
    if special == 9:
        return "127.0.0.1"
    if special == 10:
        return "127.%d.%d.%d" % (draw(_octet), draw(_octet), draw(_octet))
    if special == 11:                      # inside the range the obfuscator issues substitutes from
        return "10.230.%d.%d" % (draw(st.sampled_from([230, 231])), draw(st.integers(0, 14)))
    return "%d.%d.%d.%d" % (draw(_first_octet), draw(_octet), draw(_octet), draw(_octet))


def ip_relatives(ip):
    """canonical addresses of which `ip` is a textual prefix / suffix (or the other way round)"""
    a, b, c, d = ip.split(".")
    out = []
    for x in "0159":
        if int(d + x) <= 255:
            out.append("%s.%s.%s.%s" % (a, b, c, d + x))
    for x in "12":
        if int(x + a) <= 255:
            out.append("%s.%s.%s.%s" % (x + a, b, c, d))
    if len(d) > 1:
        out.append("%s.%s.%s.%s" % (a, b, c, d[:-1]))
    if len(a) > 1 and a[1] != "0":
        out.append("%s.%s.%s.%s" % (a[1:], b, c, d))
    return [o for o in out if _IP_RE.match(o) and o != ip]


_hexpair = st.one_of(st.sampled_from(["00", "ff", "01", "fe", "52", "54", "0a", "a0", "de", "ad"]),
                     st.text("0123456789abcdef", min_size=2, max_size=2))


@st.composite
def mac(draw):
    special = draw(die(10))
    if special == 7:
        pairs = ["00"] * 6
    elif special == 8:
        pairs = ["ff"] * 6
    elif special in (6, 9):               # nearly ignorable
        pairs = [draw(st.sampled_from(["00", "ff"]))] * 6
        pairs[draw(st.sampled_from([5, 0, 5, 0, 1, 2, 3, 4]))] = draw(_hexpair)
    else:
        pairs = [draw(_hexpair) for _ in range(6)]
    s = draw(st.sampled_from([":", ":", "-"])).join(pairs)
    case = draw(st.sampled_from(["lower", "lower", "upper", "mixed"]))
    if case == "upper":
        return s.upper()
    if case == "mixed":
        flips = draw(st.lists(st.booleans(), min_size=len(s), max_size=len(s)))
        return "".join(ch.upper() if f else ch for ch, f in zip(s, flips))
    return s


@st.composite
def short_name(draw, inner=None):
    """system short name: stem [+ inner text such as a keyword] + optional suffix"""
    stem = draw(st.sampled_from(HOST_STEMS))
    suffix = draw(st.sampled_from(["", "01", "7", "-7", "_a2", "-east-1", "X", "9b"]))
    return stem + (inner or "") + suffix


@st.composite
def fqdn(draw, inner=None):
    dom = draw(st.sampled_from(DOMAINS + [None]))
    sn = draw(short_name(inner))
    return sn if dom is None else sn + "." + dom


def domain_of(fq):
    return fq.split(".", 1)[1] if "." in fq else None


@st.composite
def other_host(draw, domain, inner=None):
    n = draw(st.sampled_from([1, 1, 1, 2, 3]))
    labels = [draw(st.sampled_from(LABELS)) for _ in range(n)]
    if inner:
        i = draw(st.integers(0, n - 1))
        labels[i] = draw(st.sampled_from([inner, labels[i] + inner, inner + "2", "x" + inner + "y"]))
    return ".".join(labels) + "." + domain


@st.composite
def keyword(draw):
    letters = draw(st.text("GHIJKLMNOPQRSTUVWXYZ", min_size=2, max_size=6))
    if draw(rarely(5)):
        i = draw(st.integers(1, len(letters) - 1))
        letters = letters[:i] + draw(st.sampled_from(["~", " ", "&", "%", "!"])) + letters[i:]
    return letters


@st.composite
def secret(draw):
    body = draw(st.text("ABCDEFabcdef0123456789_!@$%^&()+=/*-", min_size=2, max_size=9))
    i = draw(st.integers(0, len(body)))
    return body[:i] + draw(st.sampled_from("@$^()+=/")) + body[i:]


@st.composite
def password_part(draw, sec=None):
    sec = sec if sec is not None else draw(secret())
    key = "password" + draw(st.sampled_from(["", "", "", "_hash", "2", "_file", "s", "_1a", "Cfg"]))
    sep = draw(st.sampled_from(PW_SEPARATORS))
    text = key + sep + sec + ('"' if sep.endswith('"') and draw(st.booleans()) else "")
    return ["pw", text, sec]


# ---- delimiters / gaps -------------------------------------------------------------------------------

def _right_delims(kind):
    out = [d for d in ALL_DELIMS if right_ok(kind, d, " ") and left_ok("fill", d)]
    if kind == "ip":
        out += [":80", "/24", ":*", ":22", ". ", "/32,"]
    return out


def _left_delims(kind):
    return [d for d in ALL_DELIMS if left_ok(kind, d)]


def _tight(kind_a, kind_b):
    return [d for d in ALL_DELIMS if right_ok(kind_a, d, "x") and left_ok(kind_b, d)
            and not (kind_a == "ip" and d == ".")]


_RIGHT = dict((k, _right_delims(k)) for k in TOKEN_KINDS)
_LEFT = dict((k, _left_delims(k)) for k in TOKEN_KINDS)
_TIGHT = dict(((a, b), _tight(a, b)) for a in TOKEN_KINDS for b in TOKEN_KINDS)

_filler = st.builds(" ".join, st.lists(st.sampled_from(FILLER_WORDS), min_size=1, max_size=3))


@st.composite
def gap(draw, kind_a, kind_b):
    """text between two tokens (None = line start / end); never glues a token to its own syntax"""
    if kind_a is None and kind_b is None:
        return draw(_filler)
    if kind_a is None:
        if draw(rarely(3)):
            return ""
        glue = kind_b == "kw" and draw(rarely(4))
        return draw(_filler) + ("" if glue else draw(st.sampled_from(_LEFT[kind_b])))
    if kind_b is None:
        if draw(rarely(3)):
            return ""
        glue = kind_a == "kw" and draw(rarely(4))
        d = "" if glue else draw(st.sampled_from(_RIGHT[kind_a]))
        return d + (draw(_filler) if (glue or draw(st.booleans())) else "")
    if draw(rarely(3)) and _TIGHT[(kind_a, kind_b)]:
        return draw(st.sampled_from(_TIGHT[(kind_a, kind_b)]))
    lglue = kind_a == "kw" and draw(rarely(5))
    rglue = kind_b == "kw" and draw(rarely(5))
    return ("" if lglue else draw(st.sampled_from(_RIGHT[kind_a]))) + draw(_filler) + \
        ("" if rglue else draw(st.sampled_from(_LEFT[kind_b])))


# ---- worlds and lines --------------------------------------------------------------------------------

@st.composite
def world(draw, max_keywords=3, kw_in_host=True):
    """the per-case pools tokens are drawn from (so that tokens recur) + the configuration values
    that have to agree with the content (system name, keyword list)"""
    kws = draw(st.lists(keyword(), min_size=0, max_size=max_keywords, unique=True))
    inner = None
    if kws and kw_in_host and draw(rarely(3)):
        inner = draw(st.sampled_from(kws))
        if " " in inner:
            inner = None
    fq = draw(fqdn(inner if inner and draw(st.booleans()) else None))
    dom = domain_of(fq)
    hosts = []
    if dom:
        hosts = draw(st.lists(other_host(dom, inner if inner and draw(st.booleans()) else None),
                              min_size=1, max_size=3, unique=True))
    ips = draw(st.lists(ipv4(), min_size=1, max_size=4, unique=True))
    if draw(st.booleans()):
        rel = ip_relatives(ips[0])
        if rel:
            ips.append(draw(st.sampled_from(rel)))
    ips = sorted(set(ips), key=ips.index)
    macs = draw(st.lists(mac(), min_size=1, max_size=3, unique=True))
    return {"fqdn": fq, "hosts": hosts, "ips": ips, "macs": macs, "keywords": kws}


@st.composite
def token(draw, w, kinds):
    k = draw(st.sampled_from(kinds))
    if k == "ip":
        return ["ip", draw(st.sampled_from(w["ips"]))]
    if k == "mac":
        return ["mac", draw(st.sampled_from(w["macs"]))]
    if k == "short":
        return ["short", w["fqdn"].split(".")[0]]
    if k == "fqdn":
        return ["fqdn", w["fqdn"]]
    if k == "host":
        return ["host", draw(st.sampled_from(w["hosts"]))]
    if k == "kw":
        return ["kw", draw(st.sampled_from(w["keywords"]))]
    return draw(password_part())


def kinds_for(w):
    kinds = ["ip", "ip", "mac", "short", "pw"]
    if "." in w["fqdn"]:
        kinds += ["fqdn", "host"]
    if w["keywords"]:
        kinds += ["kw"]
    return kinds


@st.composite
def line(draw, w, n, max_tokens=4, kinds=None):
    """one tagged line: tokens from the world's pools separated by class-aware gaps"""
    kinds = kinds or kinds_for(w)
    toks = draw(st.lists(token(w, kinds), min_size=0 if draw(rarely(6)) else 1, max_size=max_tokens))
    if toks and draw(rarely(4)):            # repeat a token on the line
        toks.insert(draw(st.integers(0, len(toks))), list(draw(st.sampled_from(toks))))
    parts = []
    prev = None
    for t in toks:
        g = draw(gap(prev, t[0]))
        if g:
            parts.append(["fill", g])
        parts.append(t)
        prev = t[0]
    g = draw(gap(prev, None))
    if g:
        parts.append(["fill", g])
    has_pw = any(t[0] == "pw" for t in toks)
    tagpos = "start" if has_pw or draw(st.integers(0, 3)) else "end"
    return {"tag": n, "tagpos": tagpos, "parts": parts}


@st.composite
def netstat_line(draw, w, n):
    """`netstat -neopa`-shaped line for width-preserving mode: every address is followed by an
    optional port and a run of padding blanks that is longer than any width adjustment"""
    parts = [["fill", draw(st.sampled_from(["tcp   0   0 ", "udp   0   0 ", "tcp6  0  0 "]))]]
    for _ in range(2):
        parts.append(["ip", draw(st.sampled_from(w["ips"]))])
        parts.append(["fill", draw(st.sampled_from([":22", ":*", ":8080", ""])) + " " * draw(st.integers(16, 20))])
    parts.append(["fill", draw(st.sampled_from(["LISTEN", "ESTABLISHED"])) + "   "])
    if draw(st.booleans()):
        t = draw(token(w, [k for k in kinds_for(w) if k not in ("ip", "pw")]))
        parts.append(t)
        parts.append(["fill", " "])
    parts.append(["fill", draw(_filler)])
    return {"tag": n, "tagpos": "start", "parts": parts}


@st.composite
def content(draw, w, max_lines=5, max_tokens=4, netstat=False):
    n = draw(st.integers(1, max_lines))
    start = draw(st.sampled_from([0, 1, 7, 98]))
    lines = []
    for i in range(n):
        lines.append(draw(netstat_line(w, start + i) if netstat else line(w, start + i, max_tokens)))
    return lines
