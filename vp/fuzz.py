"""Coverage-guided fuzzing (Atheris / libFuzzer) as an additional engine for pure-Python string code.

A property module registers `Sub(name, check, custom=fuzz.campaign(PROPERTY, name, decode_name, instrument, ...))`.
Every shard runs one libFuzzer campaign in a child interpreter (fresh, empty corpus directory outside
/verif, `-seed` derived from VERIF_SEED, `-runs` bounded by count - never by time).  The fuzz target
decodes the bytes into the same JSON case the Hypothesis sub-checks use (through the module's decode
function and a FuzzedDataProvider) and calls the sub-check's `check`, i.e. the semantic oracle sits
inside the target.  A violation is written out as a JSON case and becomes the usual replay file.
If atheris cannot be imported the campaign is skipped (label "atheris-unavailable")."""
from __future__ import print_function

import json
import os
import re
import shutil
import subprocess
import sys
import tempfile

from vp.core import REPO, VERIF

DEPS = os.path.join(VERIF, ".deps")


def available():
    env = dict(os.environ, PYTHONPATH=os.pathsep.join([DEPS, REPO, VERIF]))
    r = subprocess.run([sys.executable, "-c", "import atheris"], env=env, stdout=subprocess.DEVNULL,
                       stderr=subprocess.DEVNULL)
    return r.returncode == 0


def hyp_campaign(prop, target_sub, instrument, runs_quick=1500, runs_thorough=150000, max_len=4096, **kw):
    """Coverage-guided campaign over another sub-check's own Hypothesis strategy: libFuzzer mutates the byte
    buffer that Hypothesis decodes into a case (`test.hypothesis.fuzz_one_input`), so no bespoke decoder is
    needed and generator, oracle and replay format are exactly those of `target_sub`."""
    return campaign(prop, target_sub, "@hypothesis", instrument, runs_quick=runs_quick,
                    runs_thorough=runs_thorough, max_len=max_len, **kw)


def campaign(prop, subname, decode_name, instrument, runs_quick=20000, runs_thorough=400000, max_len=48,
             max_time_quick=40, max_time_thorough=840):
    def custom(tier, seed, shard, nshards, stats):
        if not available():
            stats.labels["atheris-unavailable"] += 1
            return
        runs = runs_quick if tier == "quick" else runs_thorough
        # the campaign is bounded by count; the wall limit only keeps a slow machine from overrunning the tier
        # (what was executed until then is reported; running out of time is never a violation)
        max_time = max_time_quick if tier == "quick" else max_time_thorough
        try:
            max_time = max(10, min(max_time, int(float(os.environ.get("VERIF_SUB_BUDGET", max_time)))))
        except ValueError:
            pass
        work = tempfile.mkdtemp(prefix="vp-fuzz-%s-" % prop)
        try:
            out = os.path.join(work, "result.json")
            corpus = os.path.join(work, "corpus")
            os.mkdir(corpus)
            env = dict(os.environ, PYTHONPATH=os.pathsep.join([DEPS, REPO, VERIF]), PYTHONHASHSEED="0",
                       PYTHONDONTWRITEBYTECODE="1")
            cmd = [sys.executable, "-m", "vp.fuzz", "child", prop, subname, decode_name + ":" + tier, ",".join(instrument), out,
                   "-runs=%d" % runs, "-seed=%d" % (seed % (2 ** 31 - 1) + 1), "-max_len=%d" % max_len,
                   "-print_final_stats=1", "-len_control=0", "-max_total_time=%d" % max_time, "-artifact_prefix=%s/" % work, corpus]
            p = subprocess.run(cmd, env=env, cwd=VERIF, stdout=subprocess.PIPE, stderr=subprocess.STDOUT, text=True)
            text = p.stdout
            res = {}
            if os.path.exists(out):
                with open(out) as f:
                    res = json.load(f)
            m = re.search(r"stat::number_of_executed_units:\s*(\d+)", text)
            execs = int(m.group(1)) if m else res.get("execs", 0)
            cov = re.findall(r"cov: (\d+) ft: (\d+) corp: (\d+)", text)
            # an execution whose bytes do not decode into a complete case is not an evaluation of the property
            stats.evaluations += min(execs, res.get("judged", execs))
            stats.extra["fuzz_execs"] = execs
            stats.extra["fuzz_cases_judged"] = res.get("judged", execs)
            if cov:
                stats.extra["fuzz_edges_covered"] = int(cov[-1][0])
                stats.extra["fuzz_corpus_units"] = int(cov[-1][2])
            for h in res.get("nontrivial", []):
                stats.nontrivial.add(h)
            for c in res.get("samples", [])[:2]:
                stats.samples.append(c)
            stats.labels["atheris-campaign"] += 1
            if res.get("failure"):
                stats.failure = (res["failure"]["case"], res["failure"]["msg"], res["failure"].get("details", {}))
            elif res.get("harness"):
                stats.harness = res["harness"]
            elif p.returncode != 0:
                stats.harness = "atheris child exited with %d:\n%s" % (p.returncode, text[-3000:])
        finally:
            shutil.rmtree(work, ignore_errors=True)
    return custom


def child_main(argv):
    prop, subname, decode_name, instrument, out = argv[:5]
    fuzz_args = argv[5:]
    import atheris
    import logging
    logging.disable(logging.CRITICAL)
    mods = [m for m in instrument.split(",") if m]
    with atheris.instrument_imports(include=mods, enable_loader_override=False):
        import importlib
        for m in mods:
            importlib.import_module(m)
    from vp import core
    mod = core._load_module(prop)
    sub = core._find_sub(mod, subname)
    decode_name, _, tier = decode_name.partition(":")
    decode = getattr(mod, decode_name) if decode_name != "@hypothesis" else None
    state = {"execs": 0, "judged": 0, "nontrivial": set(), "samples": []}
    # libFuzzer leaves through exit() (nothing after Fuzz() runs, atexit hooks do not run): results are written
    # out periodically, often enough that at most a few percent of a campaign are missing from the counts
    nruns = [int(a.split("=", 1)[1]) for a in fuzz_args if a.startswith("-runs=")]
    every = max(25, (nruns[0] if nruns else 100000) // 40)

    def flush(extra=None):
        doc = {"execs": state["execs"], "judged": state["judged"], "nontrivial": sorted(state["nontrivial"])[:200000], "samples": state["samples"]}
        doc.update(extra or {})
        with open(out, "w") as f:
            json.dump(doc, f, default=repr)

    def one(data):
        state["execs"] += 1
        if state["execs"] % every == 0:
            flush()
        case = decode(atheris.FuzzedDataProvider(data))
        if case is None:
            return
        judge(case)

    def judge(case):
        state["judged"] += 1
        r = core.run_check(sub, case)
        if r[0] == "ok":
            info = r[1]
            if info.get("nontrivial"):
                h = core.case_hash(case)
                if h not in state["nontrivial"]:
                    state["nontrivial"].add(h)
                    if len(state["samples"]) < 2:
                        state["samples"].append(case)
            return
        if r[0] == "violation":
            flush({"failure": {"case": case, "msg": r[1], "details": r[2]}})
        else:
            flush({"harness": r[1]})
        sys.stdout.flush()
        os._exit(0)

    if decode is None:
        # drive the sub-check's own strategy: Hypothesis turns libFuzzer's bytes into a case
        from hypothesis import given, settings, HealthCheck

        def body(case):
            judge(case)

        test = settings(database=None, deadline=None, suppress_health_check=list(HealthCheck))(
            given(sub.strategy(tier or "quick"))(body))
        feed = test.hypothesis.fuzz_one_input

        def one(data):  # noqa: F811
            state["execs"] += 1
            if state["execs"] % every == 0:
                flush()
            feed(data)

    atheris.Setup([sys.argv[0]] + fuzz_args, one)
    try:
        atheris.Fuzz()
    finally:
        flush()


if __name__ == "__main__":
    if len(sys.argv) > 1 and sys.argv[1] == "child":
        child_main(sys.argv[2:])
